#!/usr/bin/env python3
"""Self-validation: apply a seeded change (seeded/<id>/patch.diff) to /repo, run the given checks (quick tier), undo it.
usage: meta/seedrun.py <seed-id> [CHECK ...] [--tier quick|thorough]     (default checks: meta.json 'breaks' property)
Prints one line per check: <check> exit=<rc> violations=<signatures...>; never leaves /repo modified."""
import json
import os
import subprocess
import sys

ROOT = os.path.dirname(os.path.dirname(os.path.abspath(__file__)))


def main():
    args = [a for a in sys.argv[1:] if not a.startswith("--")]
    tier = "quick"
    if "--tier" in sys.argv:
        tier = sys.argv[sys.argv.index("--tier") + 1]
        args = [a for a in args if a != tier]
    sid = args[0]
    d = os.path.join(ROOT, "seeded", sid)
    meta = json.load(open(os.path.join(d, "meta.json")))
    checks = args[1:] or [meta["breaks"]]
    st = subprocess.run(["git", "-C", "/repo", "status", "--porcelain"], capture_output=True, text=True).stdout.strip()
    if st:
        print("refusing: /repo has uncommitted changes:\n" + st)
        sys.exit(2)
    ap = subprocess.run(["git", "-C", "/repo", "apply", os.path.join(d, "patch.diff")], capture_output=True, text=True)
    if ap.returncode != 0:
        print("patch does not apply:", ap.stderr)
        sys.exit(2)
    results = {}
    import shutil
    ev_backup = os.path.join(ROOT, "work", "evidence-backup")
    shutil.rmtree(ev_backup, ignore_errors=True)
    shutil.copytree(os.path.join(ROOT, "evidence"), ev_backup)
    try:
        for c in checks:
            p = subprocess.run([os.path.join(ROOT, "check"), c, "--tier", tier], cwd=ROOT, capture_output=True, text=True,
                               env=dict(os.environ, VERIF_SEED=os.environ.get("VERIF_SEED", "1")))
            sigs = [l.strip()[len("signature: "):] for l in p.stdout.splitlines() if l.strip().startswith("signature:")]
            incon = [l for l in p.stdout.splitlines() if l.startswith("INCONCLUSIVE")]
            results[c] = {"exit": p.returncode, "signatures": sigs[:8], "inconclusive": incon[:1]}
            print(f"{c} exit={p.returncode} " + (" | ".join(sigs[:4]) if sigs else (incon[0][:200] if incon else "held")))
    finally:
        # evidence written while a seeded change was applied must not replace the evidence of the unchanged tree
        shutil.rmtree(os.path.join(ROOT, "evidence"), ignore_errors=True)
        shutil.copytree(ev_backup, os.path.join(ROOT, "evidence"))
        subprocess.run(["git", "-C", "/repo", "checkout", "--", "."], check=True)
        subprocess.run(["git", "-C", "/repo", "clean", "-fdq", "--", "zeep-lib/src", "zeep/src"], check=False)
    return results


if __name__ == "__main__":
    main()
