#!/usr/bin/env python3
"""Regenerates /verif/MANIFEST.json from the table below (run after adding or changing a check)."""
import json
import os

ROOT = os.path.dirname(os.path.dirname(os.path.abspath(__file__)))

CHECKS = {
    "C06": ("exploration", "H",
            "Runtime oracle over a completely enumerated bounded domain (3.1M (carrier, value, restriction set) triples): the real helper's return value is compared with an XSD-semantics reference predicate. Exhaustive inside the stated bounds, nothing claimed outside them.",
            "Trusts the reference predicate in tools/hharness/src/c06.rs and rustc; the helper file is included unmodified by #[path].",
            "reference-model monitor over exhaustive bounded enumeration (runtime)"),
    "C19": ("exploration", "H",
            "Runtime differential monitor: every enumerated probe value is pushed bare and MultiRef-wrapped through yaserde ser/de, Debug, Default, check_restrictions and clone; any observable difference is a violation.",
            "Trusts yaserde 0.12 as the common runtime; self-referential deserialization is excluded because yaserde itself loops there.",
            "differential runtime monitor (bare vs wrapped) over enumerated probe values"),
    "C11": ("exploration", "L",
            "Every import graph over <=3 files (quick) / <=4 files (thorough, 2^16 x 4 runs) and every start file is executed through the real reader in child processes; the multiset of emitted struct names must equal the components of the reachable files, and outputs must be byte-identical under unreachable-sibling variation. Crash, stack overflow and CPU limit are observed at the process boundary.",
            "Graphs beyond 4 files are sampled. Files are rendered by zdrive with two components per file; reachability is computed independently in Python.",
            "process-boundary crash/termination monitor + output-set oracle over exhaustively enumerated import graphs"),
    "C12": ("exploration", "L",
            "The real library is run repeatedly on identical inputs across fresh processes (fresh hash seeds), threads, repeated calls on one FilesToRead, permuted registration orders, the directory-enumerating helper, and histories of different inputs in one process (each output compared with that input's fresh-process output); any byte difference between outputs is a violation.",
            "A hash-order dependence on an input with k operations escapes N processes with probability ~ (1/k!)^(N-1); the corpus has many multi-operation WSDLs.",
            "byte-equality monitor over repeated executions (processes x threads x orders x call histories)"),
    "C13": ("exploration", "L",
            "Crash/hang monitor: thousands of structure-aware mutants of real and synthetic schemas plus an enumerated grammar of invalid documents (thorough: plus the inputs a coverage-guided fuzzer keeps) run read_xml+write_xml in child processes under catch_unwind, RLIMIT_CPU and an 8 MiB stack; any panic, signal or CPU-limit is a violation. The grammar families whose verdict depends on the size of a stack frame run a second time in a build without optimisation.",
            "An unbounded input space, sampled; the evidence reports outcome distribution and operator classes reached.",
            "process-boundary crash/hang monitor under mutation-, grammar- and (thorough) coverage-guided-fuzzer-generated hostile inputs"),
    "C15": ("fault_enumeration", "L",
            "write_xml is run on an instrumented io::Write that fails at write call k for every k (small/medium documents; sampled for the 10^5-call ones) x {once, forever} x error kinds; the result must be Err(Io), never Ok or panic; sinks that run full at a byte count and then accept nothing (Ok(0)) must give Err(Io) as well; short-write sinks must yield byte-identical output.",
            "Fault point = one io::Write::write call; flush is never called by the writer.",
            "fault injection at every write-call index with outcome monitor"),
    "C17": ("fault_enumeration", "C",
            "The built zeep binary is run over the full matrix scenario x path spelling/cwd x output mode x pre-existing output in scratch trees; exit status, output bytes (vs. the library's bytes), stale tails, stray files and preservation of a pre-existing output on failure are observed.",
            "Runs as root, so permission failures are replaced by an invalid-UTF-8 imported sibling; write errors of the final file write are not injected.",
            "black-box CLI monitor over an enumerated configuration x failure-stage matrix"),
}

G_NOTE = ("Only generated programs are judged (vf/gen.py, DESIGN §2 grammar); rustc, yaserde, reqwest, tokio at the locked versions are the "
          "trusted runtime; features listed as quarantined in known_findings.json are kept out of ordinary programs.")
CHECKS.update({
    "C01": ("exploration", "G",
            "Every generated schema set is pushed through the real generator and the emitted file is compiled by rustc (edition 2024, metadata only) with --extern limited to the six documented crates; any rustc or syn error in emitted code is a violation.",
            G_NOTE, "compile monitor over generated programs (rustc as oracle)"),
    "C02": ("exploration", "G",
            "The emitted struct set and member lists (parsed with syn) are compared with an independent reference mapping of the schema model, and a typed probe (one struct literal per type, each member forced to its expected type) is compiled: rustc decides type identity member by member.",
            G_NOTE, "reference-mapping oracle + rustc typed probe over generated programs"),
    "C03": ("exploration", "G",
            "Sampled values of every generated root type are serialized by the compiled emitted code at run time; the XML is parsed namespace-aware (expat) and compared as an infoset with the independently rendered expectation; deviations shared by independently written reference structs are excluded as yaserde limits (classes listed in evidence).",
            G_NOTE, "runtime wire monitor: infoset comparison against an independent renderer"),
    "C04": ("exploration", "G",
            "Schema-valid instance documents in 5 independent prefix/namespace styles are deserialized by the compiled emitted code; Debug equality with the constructed value, infoset equality of the re-serialization and the ser-de-ser fixpoint are checked at run time, with the reference-struct exclusion rule the property states.",
            G_NOTE, "runtime round-trip monitor with differential exclusion (reference structs)"),
    "C05": ("exploration", "G",
            "For generated WSDLs the client is discovered from the emitted text, request envelopes are serialized and compared with the independently built SOAP 1.1 envelope infoset, and every operation is called against a loopback listener at the WSDL's address; the returned value must equal the expected response value.",
            G_NOTE, "runtime monitor at the wire and listener boundary over generated clients"),
    "C16": ("fault_enumeration", "G",
            "Every operation of generated clients runs the complete scripted-server table (status x body x transport fault x credentials, plus 32 concurrent calls); the listener's request log and the caller's Result are judged against the expected-outcome table.",
            G_NOTE, "scripted fault injection at the HTTP boundary with request-log and result monitors"),
    "C18": ("exploration", "G",
            "The driver asserts Send for every method future and free function future and Send+Sync for every envelope type (rustc E0277 on those lines is the verdict) and runs every call through tokio::spawn on a multi-thread runtime.",
            G_NOTE, "compile-time trait assertions + runtime spawn on generated clients"),
})

CHECKS.update({
    "C07": ("exploration", "G",
            "For generated WSDLs with restricted simple types at every kind of position, request envelopes with exactly one violating value per reachable (position, facet) and boundary-valid envelopes are checked with check_restrictions(None) and sent through the generated client against a listener that counts accepted connections: a violating request must fail with SoapError::Restriction and open no connection, a valid one must be sent.",
            G_NOTE, "runtime monitor of check results and accepted connections under enumerated single-violation samples"),
    "C08": ("exploration", "G",
            "Generated extension forests: the member list and typed probe of every derived struct must be base members first (base order), then own elements, then own attributes; serialized values of derived types must carry inherited members in the declaring schema's namespace.",
            G_NOTE, "reference-mapping oracle + typed probe + wire monitor restricted to derived types"),
    "C09": ("exploration", "G",
            "Generated schema sets that reuse six words for types, elements, local elements, attributes, messages and parts across namespaces, with prefixes rebound per file: the typed probe, the wire namespaces and the envelope elements must show that every reference reached the component of the right namespace and kind.",
            G_NOTE, "typed probe + wire/envelope monitors on deliberately name-colliding programs"),
    "C10": ("exploration", "G",
            "Generated sets over an adversarial URI pool: the emitted file's namespaces/prefix/module attributes (parsed with syn) must be injective both ways, one module per namespace, every member prefix bound to the declaring schema's URI; the file must compile and one value per struct must serialize namespace-well-formed.",
            G_NOTE, "static monitor over emitted attributes (syn) + compile + wire prefix bindings"),
    "C14": ("exploration", "G",
            "Keyword x naming-position and payload x text-position matrices on a hand-built WSDL program: the output must parse (syn) and compile (rustc), components must survive, the identifier set must equal the payload-free baseline, and enumeration/namespace literals must evaluate to the original text. Thorough enumerates both matrices completely.",
            "rustc is the authority on identifier legality; a generator error on a payload input is acceptable, a crash is not.",
            "token-census monitor (syn) + rustc over exhaustively enumerated keyword and payload matrices"),
})

PENDING = {
    p: "check under construction in this round (engine G not yet built); see DESIGN.md §9 construction order"
    for p in []
}


def main():
    checks = []
    for pid in sorted(CHECKS):
        level, engine, text, note, tech = CHECKS[pid]
        checks.append({
            "property_id": pid,
            "quick_cmd": f"./check {pid} --tier quick",
            "thorough_cmd": f"./check {pid} --tier thorough",
            "evidence_file": f"/verif/evidence/{pid}.json",
            "replay_cmd_template": f"./check {pid} --replay {{path}}",
            "engine": engine,
            "level_claimed": {"category": level, "text": text, "design_ref": f"DESIGN.md §5 {pid}"},
            "level_note": note,
            "technique": tech,
        })
    m = {
        "version": 1,
        "setup_cmd": "./setup.sh",
        "hooks": {"guard": "zeep_verif",
                  "enable": "RUSTFLAGS='--cfg zeep_verif' (reserved; no source hooks exist: every monitor sits at a public boundary)",
                  "baseline_off_cmd": "cd /repo && cargo test --workspace --no-fail-fast --offline",
                  "source_commits": [], "add_only": True},
        "engines": [
            {"name": "H", "path": "tools/hharness", "serves_properties": ["C06", "C19"],
             "kind_free_text": "helper source compiled by path; reference-semantics oracle over enumerated domains"},
            {"name": "L", "path": "tools/zdrive + vf/engine_l.py", "serves_properties": ["C11", "C12", "C13", "C15"],
             "kind_free_text": "library entry points in child processes: crash/CPU monitors, instrumented sinks, byte comparison"},
            {"name": "C", "path": "vf/engine_c.py", "serves_properties": ["C17"], "kind_free_text": "built CLI binary in scratch trees"},
            {"name": "G", "path": "vf/engine_g.py", "serves_properties": sorted(set(PENDING) | (set(CHECKS) - {"C06", "C19", "C11", "C12", "C13", "C15", "C17"})),
             "kind_free_text": "generate schema sets -> zeep -> rustc -> run drivers -> oracles on event logs"},
        ],
        "checks": checks,
        "not_applicable": [{"property_id": p, "reason": r} for p, r in sorted(PENDING.items()) if p not in CHECKS],
        "notes": "Technique family: runtime monitoring. Verdicts are three-valued (exit 0 held, 1 violation + VIOLATION line, 2 inconclusive). "
                 "Known findings: known_findings.json (read-only at run time).",
    }
    with open(os.path.join(ROOT, "MANIFEST.json"), "w") as f:
        json.dump(m, f, indent=1)
        f.write("\n")


if __name__ == "__main__":
    main()
