#!/usr/bin/env python3
"""Regenerates /verif/MANIFEST.json from the table below (run after adding or changing a check)."""
import json
import os

ROOT = os.path.dirname(os.path.dirname(os.path.abspath(__file__)))

CHECKS = {
    "C06": ("exploration", "H",
            "Runtime oracle over a completely enumerated bounded domain (3.1M (carrier, value, restriction set) triples): the real helper's return value is compared with an XSD-semantics reference predicate. Exhaustive inside the stated bounds, nothing claimed outside them.",
            "Trusts the reference predicate in tools/hharness/src/c06.rs and rustc; the helper file is included unmodified by #[path].",
            "reference-model monitor over exhaustive bounded enumeration (runtime)"),
    "C19": ("exploration", "H",
            "Runtime differential monitor: every enumerated probe value is pushed bare and MultiRef-wrapped through yaserde ser/de, Debug, Default, check_restrictions and clone; any observable difference is a violation.",
            "Trusts yaserde 0.12 as the common runtime; self-referential deserialization is excluded because yaserde itself loops there.",
            "differential runtime monitor (bare vs wrapped) over enumerated probe values"),
    "C11": ("exploration", "L",
            "Every import graph over <=3 files (quick) / <=4 files (thorough, 2^16 x 4 runs) and every start file is executed through the real reader in child processes; the multiset of emitted struct names must equal the components of the reachable files, and outputs must be byte-identical under unreachable-sibling variation. Crash, stack overflow and CPU limit are observed at the process boundary.",
            "Graphs beyond 4 files are sampled. Files are rendered by zdrive with two components per file; reachability is computed independently in Python.",
            "process-boundary crash/termination monitor + output-set oracle over exhaustively enumerated import graphs"),
    "C12": ("exploration", "L",
            "The real library is run repeatedly on identical inputs across fresh processes (fresh hash seeds), threads, repeated calls on one FilesToRead, permuted registration orders and the directory-enumerating helper; any byte difference between outputs is a violation.",
            "A hash-order dependence on an input with k operations escapes N processes with probability ~ (1/k!)^(N-1); the corpus has many multi-operation WSDLs.",
            "byte-equality monitor over repeated executions (processes x threads x orders x call histories)"),
    "C13": ("exploration", "L",
            "Crash/hang monitor: thousands of structure-aware mutants of real and synthetic schemas plus an enumerated grammar of invalid documents run read_xml+write_xml in child processes under catch_unwind, RLIMIT_CPU and an 8 MiB stack; any panic, signal or CPU-limit is a violation.",
            "An unbounded input space, sampled; the evidence reports outcome distribution and operator classes reached.",
            "process-boundary crash/hang monitor under mutation- and grammar-generated hostile inputs"),
    "C15": ("fault_enumeration", "L",
            "write_xml is run on an instrumented io::Write that fails at write call k for every k (small/medium documents; sampled for the 10^5-call ones) x {once, forever} x error kinds; the result must be Err(Io), never Ok or panic; short-write sinks must yield byte-identical output.",
            "Fault point = one io::Write::write call; flush is never called by the writer.",
            "fault injection at every write-call index with outcome monitor"),
    "C17": ("fault_enumeration", "C",
            "The built zeep binary is run over the full matrix scenario x path spelling/cwd x output mode x pre-existing output in scratch trees; exit status, output bytes (vs. the library's bytes), stale tails, stray files and preservation of a pre-existing output on failure are observed.",
            "Runs as root, so permission failures are replaced by an invalid-UTF-8 imported sibling; write errors of the final file write are not injected.",
            "black-box CLI monitor over an enumerated configuration x failure-stage matrix"),
}

PENDING = {
    p: "check under construction in this round (engine G not yet built); see DESIGN.md §9 construction order"
    for p in ["C01", "C02", "C03", "C04", "C05", "C07", "C08", "C09", "C10", "C14", "C16", "C18"]
}


def main():
    checks = []
    for pid in sorted(CHECKS):
        level, engine, text, note, tech = CHECKS[pid]
        checks.append({
            "property_id": pid,
            "quick_cmd": f"./check {pid} --tier quick",
            "thorough_cmd": f"./check {pid} --tier thorough",
            "evidence_file": f"/verif/evidence/{pid}.json",
            "replay_cmd_template": f"./check {pid} --replay {{path}}",
            "engine": engine,
            "level_claimed": {"category": level, "text": text, "design_ref": f"DESIGN.md §5 {pid}"},
            "level_note": note,
            "technique": tech,
        })
    m = {
        "version": 1,
        "setup_cmd": "./setup.sh",
        "hooks": {"guard": "zeep_verif",
                  "enable": "RUSTFLAGS='--cfg zeep_verif' (reserved; no source hooks exist: every monitor sits at a public boundary)",
                  "baseline_off_cmd": "cd /repo && cargo test --workspace --no-fail-fast --offline",
                  "source_commits": [], "add_only": True},
        "engines": [
            {"name": "H", "path": "tools/hharness", "serves_properties": ["C06", "C19"],
             "kind_free_text": "helper source compiled by path; reference-semantics oracle over enumerated domains"},
            {"name": "L", "path": "tools/zdrive + vf/engine_l.py", "serves_properties": ["C11", "C12", "C13", "C15"],
             "kind_free_text": "library entry points in child processes: crash/CPU monitors, instrumented sinks, byte comparison"},
            {"name": "C", "path": "vf/engine_c.py", "serves_properties": ["C17"], "kind_free_text": "built CLI binary in scratch trees"},
            {"name": "G", "path": "vf/engine_g.py", "serves_properties": sorted(set(PENDING) | (set(CHECKS) - {"C06", "C19", "C11", "C12", "C13", "C15", "C17"})),
             "kind_free_text": "generate schema sets -> zeep -> rustc -> run drivers -> oracles on event logs"},
        ],
        "checks": checks,
        "not_applicable": [{"property_id": p, "reason": r} for p, r in sorted(PENDING.items()) if p not in CHECKS],
        "notes": "Technique family: runtime monitoring. Verdicts are three-valued (exit 0 held, 1 violation + VIOLATION line, 2 inconclusive). "
                 "Known findings: known_findings.json (read-only at run time).",
    }
    with open(os.path.join(ROOT, "MANIFEST.json"), "w") as f:
        json.dump(m, f, indent=1)
        f.write("\n")


if __name__ == "__main__":
    main()
