#!/usr/bin/env python3
"""meta/seed_record.py <seed-id>... : run meta/seedrun_iso.sh for each seed (quick tier, the check of the property it breaks) and
store what happened in seeded/<id>/meta.json under "checked". Never touches /repo (private mount namespace)."""
import json
import os
import re
import subprocess
import sys

ROOT = os.path.dirname(os.path.dirname(os.path.abspath(__file__)))
for sid in sys.argv[1:]:
    mp = os.path.join(ROOT, "seeded", sid, "meta.json")
    meta = json.load(open(mp))
    out = subprocess.run([os.path.join(ROOT, "meta", "seedrun_iso.sh"), sid], stdout=subprocess.PIPE, stderr=subprocess.STDOUT,
                         env=dict(os.environ, ZV_SCR=os.environ.get("ZV_SCR", "/var/tmp/zv-seed-work"))).stdout.decode(errors="replace")
    line = out.strip().splitlines()[-1] if out.strip() else ""
    m = re.match(r".* :: (C\d\d) exit=(\d+) (.*)", line)
    if not m:
        print(sid, "no result line:", line[:200])
        continue
    sigs = [x.strip() for x in m.group(3).split("|C") if x.strip()]
    sigs = [("C" + x if not x.startswith("C") else x).rstrip("|") for x in sigs][:3]
    meta["checked"] = {"command": f"meta/seedrun_iso.sh {sid}", "tier": "quick", "VERIF_SEED": int(os.environ.get("VERIF_SEED", "1")),
                       "check": m.group(1), "exit": int(m.group(2)),
                       "first_signatures": sigs if m.group(2) == "1" else [], "result_line": line[:300] if m.group(2) != "1" else None}
    json.dump(meta, open(mp, "w"), indent=1, ensure_ascii=False)
    print(sid, "exit", m.group(2), "; ".join(sigs)[:160])
