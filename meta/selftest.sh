#!/bin/sh
# meta/selftest.sh [--tier quick|thorough] : every seeded change must be caught by the check of the property it breaks.
# Applies each seeded/<id>/patch.diff to /repo in turn (never concurrently with other checks), restores /repo and the evidence.
cd "$(dirname "$0")/.." || exit 2
fail=0
for d in seeded/*/; do
  id=$(basename "$d")
  out=$(python3 meta/seedrun.py "$id" "$@" 2>&1 | tail -1)
  case "$out" in
    *"exit=1"*) echo "caught   $id :: $(echo "$out" | cut -c1-160)";;
    *) echo "MISSED   $id :: $out"; fail=1;;
  esac
done
exit $fail
