#!/bin/sh
# meta/selftest.sh : every seeded change must be caught by the check of the property it breaks (quick tier).
# Uses meta/seedrun_iso.sh (private mount namespace, needs root), so /repo itself is never modified.
cd "$(dirname "$0")/.." || exit 2
fail=0
for d in seeded/*/; do
  id=$(basename "$d")
  if grep -q '"retired"' "$d/meta.json"; then echo "retired  $id"; continue; fi
  out=$(meta/seedrun_iso.sh "$id" 2>&1 | tail -1)
  case "$out" in
    *"exit=1"*) echo "caught   $(echo "$out" | cut -c1-200)";;
    *) echo "MISSED   $out"; fail=1;;
  esac
done
rm -rf /var/tmp/zv-seed-work
exit $fail
