#!/bin/sh
# meta/seedsh.sh <seed-id> <command...> : run a command with /repo replaced (private mount namespace) by HEAD + the seeded patch,
# work/evidence/replays redirected to $ZV_SCR (default /var/tmp/zv-seed-work). For looking at one seed by hand.
set -u
ID=$1; shift
ROOT=$(cd "$(dirname "$0")/.." && pwd)
COPY=/var/tmp/zv-seed-repo-$$
SCR=${ZV_SCR:-/var/tmp/zv-seed-work}
mkdir -p "$COPY" "$SCR/evidence" "$SCR/replays"
(cd /repo && git archive HEAD | tar -x -C "$COPY") || exit 2
(cd "$COPY" && git apply "$ROOT/seeded/$ID/patch.diff") || { echo "patch does not apply"; rm -rf "$COPY"; exit 2; }
find "$COPY" -type f -exec touch {} +
VERIF_WORK=$SCR/work VERIF_EVIDENCE=$SCR/evidence VERIF_REPLAYS=$SCR/replays unshare --mount sh -c \
  "mount --bind $COPY /repo && cd $ROOT && $*"
RC=$?
rm -rf "$COPY"
exit $RC
