#!/bin/sh
# meta/seed_import.sh <seed-id> <worktree> <demo command relative to worktree>
# Confirms in the sub-agent's worktree: tests pass with the patch, demo fails with it and passes without it; then stores the seed.
set -u
ID=$1; WT=$2; DEMO=$3
export CARGO_TARGET_DIR=$WT/target CARGO_NET_OFFLINE=true
cd "$WT" || exit 2
git diff -- . ':!demo' > /tmp/seed-$ID.diff
[ -s /tmp/seed-$ID.diff ] || { echo "no source change in $WT"; exit 2; }
T=$(cargo test --workspace --offline 2>&1 | grep -E "^test result: .* 32 passed; 0 failed" | head -1)
echo "tests with patch: ${T:-NOT 32 PASSED}"
sh -c "$DEMO" > /tmp/seed-$ID.with.log 2>&1; W=$?
git apply -R /tmp/seed-$ID.diff || { echo "cannot revert"; exit 2; }
sh -c "$DEMO" > /tmp/seed-$ID.without.log 2>&1; WO=$?
git apply /tmp/seed-$ID.diff
echo "demo with patch: exit $W   without patch: exit $WO"
mkdir -p /verif/seeded/$ID
cp /tmp/seed-$ID.diff /verif/seeded/$ID/patch.diff
rm -rf /verif/seeded/$ID/demo; mkdir -p /verif/seeded/$ID/demo
(cd demo && tar cf - --exclude=target --exclude='*.rs.out' --exclude=out --exclude=patch.diff . ) | (cd /verif/seeded/$ID/demo && tar xf -)
tail -5 /tmp/seed-$ID.with.log > /verif/seeded/$ID/demo_with_patch.log
tail -3 /tmp/seed-$ID.without.log > /verif/seeded/$ID/demo_without_patch.log
[ -n "$T" ] && [ $W -ne 0 ] && [ $WO -eq 0 ] && echo CONFIRMED || echo NOT-CONFIRMED
