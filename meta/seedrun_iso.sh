#!/bin/sh
# meta/seedrun_iso.sh <seed-id> [CHECK ...]   (env: VERIF_SEED, TIER=quick|thorough)
# Like meta/seedrun.py, but without touching /repo: a copy of /repo's HEAD with the seeded patch applied is bind-mounted over
# /repo inside a private mount namespace, and work/evidence/replays are redirected to a scratch directory, so other checks can
# keep running against the real /repo meanwhile. Needs root (unshare --mount). The scratch tree is removed afterwards; the
# scratch build directory /var/tmp/zv-seed-work is reused between runs (remove it when done).
set -u
ID=$1; shift
ROOT=$(cd "$(dirname "$0")/.." && pwd)
PATCH=$ROOT/seeded/$ID/patch.diff
[ -f "$PATCH" ] || { echo "no such seed: $ID"; exit 2; }
CHECKS=${*:-$(python3 -c "import json;print(json.load(open('$ROOT/seeded/$ID/meta.json'))['breaks'])")}
COPY=/var/tmp/zv-seed-repo-$$
SCR=${ZV_SCR:-/var/tmp/zv-seed-work}
mkdir -p "$COPY" "$SCR/evidence" "$SCR/replays"
(cd /repo && git archive HEAD | tar -x -C "$COPY") || exit 2
(cd "$COPY" && git apply "$PATCH") || { echo "patch does not apply"; rm -rf "$COPY"; exit 2; }
# git archive stamps every file with the commit time; cargo decides by mtime, so without this a build left over from the
# previous seed would be reused for this one
find "$COPY" -type f -exec touch {} +
for C in $CHECKS; do
  OUT=$(VERIF_WORK=$SCR/work VERIF_EVIDENCE=$SCR/evidence VERIF_REPLAYS=$SCR/replays unshare --mount sh -c \
      "mount --bind $COPY /repo && cd $ROOT && ./check $C --tier ${TIER:-quick}" 2>&1)
  RC=$?
  SIGS=$(echo "$OUT" | grep "signature:" | head -3 | sed 's/^ *signature: //' | tr '\n' '|')
  echo "$ID :: $C exit=$RC ${SIGS:-$(echo "$OUT" | tail -1 | cut -c1-160)}"
done
rm -rf "$COPY"
