#!/bin/sh
# meta/selftest_par.sh [streams] : meta/selftest.sh in N parallel streams (default 3), each with a scratch directory of its own
# (two streams sharing one would corrupt each other, DESIGN §10). Output: one line per seed, as selftest.sh; exit 1 if any is missed.
cd "$(dirname "$0")/.." || exit 2
N=${1:-3}
tmp=$(mktemp -d /var/tmp/zv-selftest-XXXXXX)
ls -d seeded/*/ | sed 's#seeded/##; s#/##' > "$tmp/all"
i=0
while [ $i -lt "$N" ]; do
  awk -v n="$N" -v k="$i" 'NR % n == k' "$tmp/all" > "$tmp/list$i"
  (
    while read -r id; do
      if grep -q '"retired"' "seeded/$id/meta.json"; then echo "retired  $id"; continue; fi
      out=$(ZV_SCR=/var/tmp/zv-selftest-work$i meta/seedrun_iso.sh "$id" 2>&1 | tail -1)
      case "$out" in
        *"exit=1"*) echo "caught   $(echo "$out" | cut -c1-200)";;
        *) echo "MISSED   $out";;
      esac
    done < "$tmp/list$i" > "$tmp/out$i"
    rm -rf /var/tmp/zv-selftest-work$i
  ) &
  i=$((i + 1))
done
wait
cat "$tmp"/out* | sort -k2
fail=0
grep -q "^MISSED" "$tmp"/out* && fail=1
rm -rf "$tmp"
exit $fail
