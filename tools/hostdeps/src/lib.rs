pub fn _unused() {}
