#![no_main]
//! Workload generator only: libFuzzer's coverage feedback finds inputs that reach new reader / writer paths. The verdict on
//! every input it keeps (corpus entries and crash artifacts) is taken afterwards by the zdrive worker, the same boundary
//! monitor that judges the mutated inputs of C13, so nothing here decides anything.
//! Input format: files separated by the line `<!--ZVFILE-->`; the first is the start file (`in.wsdl`), the rest are
//! `f1.xsd`, `f2.xsd`, ... next to it.
use libfuzzer_sys::fuzz_target;
use zeep_lib::reader::{Files, FilesToRead, WriteXml, XmlReader};

fuzz_target!(|data: &[u8]| {
    let Ok(text) = std::str::from_utf8(data) else { return };
    let mut parts = text.split("<!--ZVFILE-->");
    let first = parts.next().unwrap_or("");
    let mut files = Files::new("in.wsdl", first);
    for (i, p) in parts.enumerate().take(6) {
        files.add(&format!("f{}.xsd", i + 1), p);
    }
    let ftr = FilesToRead::new("in.wsdl".to_string(), files);
    if let Ok(doc) = XmlReader::read_xml(&ftr) {
        let mut out = Vec::new();
        let _ = doc.write_xml(&mut out);
    }
});
