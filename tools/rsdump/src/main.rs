use std::io::Read;

fn main() {
    let args: Vec<String> = std::env::args().skip(1).collect();
    let census = args.iter().any(|a| a == "--census");
    let paths: Vec<&String> = args.iter().filter(|a| !a.starts_with("--")).collect();
    let mut src = String::new();
    if let Some(p) = paths.first() {
        match std::fs::read_to_string(p) {
            Ok(s) => src = s,
            Err(e) => {
                println!("{}", serde_json::json!({"ok": false, "error": format!("read: {e}")}));
                return;
            }
        }
    } else {
        std::io::stdin().read_to_string(&mut src).unwrap();
    }
    println!("{}", rsdump::describe(&src, census));
}
