//! rsdump: parse an emitted Rust file with syn and describe it as JSON.
//!
//! The description is deliberately dumb: names, normalised type strings, yaserde attribute
//! key/values, fn signatures, plus a flat token census (identifiers, string-literal *values*,
//! other literals, doc strings) used by the C14 marker search.  All judging happens in Python.

use proc_macro2::{Delimiter, TokenStream, TokenTree};
use quote::ToTokens;
use serde_json::{json, Map, Value};
use std::collections::BTreeSet;

pub fn type_string(ty: &syn::Type) -> String {
    normalise_tokens(ty.to_token_stream())
}

/// Token stream → string without any whitespace except between two identifier-like tokens.
pub fn normalise_tokens(ts: TokenStream) -> String {
    let mut out = String::new();
    fn walk(ts: TokenStream, out: &mut String) {
        for tt in ts {
            match tt {
                TokenTree::Group(g) => {
                    let (o, c) = match g.delimiter() {
                        Delimiter::Parenthesis => ("(", ")"),
                        Delimiter::Brace => ("{", "}"),
                        Delimiter::Bracket => ("[", "]"),
                        Delimiter::None => ("", ""),
                    };
                    out.push_str(o);
                    walk(g.stream(), out);
                    out.push_str(c);
                }
                TokenTree::Ident(i) => {
                    if out.chars().last().is_some_and(|c| c.is_alphanumeric() || c == '_') {
                        out.push(' ');
                    }
                    out.push_str(&i.to_string());
                }
                TokenTree::Punct(p) => out.push(p.as_char()),
                TokenTree::Literal(l) => {
                    if out.chars().last().is_some_and(|c| c.is_alphanumeric() || c == '_') {
                        out.push(' ');
                    }
                    out.push_str(&l.to_string());
                }
            }
        }
    }
    walk(ts, &mut out);
    out
}

fn lit_str_value(l: &proc_macro2::Literal) -> Option<String> {
    let lit: syn::Lit = syn::parse_str(&l.to_string()).ok()?;
    match lit {
        syn::Lit::Str(s) => Some(s.value()),
        _ => None,
    }
}

/// Parse `key = "v", key2 = {"a" = "b"}, flag = true` (the inside of `#[yaserde(...)]`).
fn parse_yaserde(ts: TokenStream) -> Value {
    let mut m = Map::new();
    let toks: Vec<TokenTree> = ts.into_iter().collect();
    let mut i = 0;
    while i < toks.len() {
        let key = match &toks[i] {
            TokenTree::Ident(id) => id.to_string(),
            _ => {
                i += 1;
                continue;
            }
        };
        i += 1;
        let mut val = Value::Bool(true);
        if i < toks.len() {
            if let TokenTree::Punct(p) = &toks[i] {
                if p.as_char() == '=' {
                    i += 1;
                    if i < toks.len() {
                        val = match &toks[i] {
                            TokenTree::Literal(l) => match lit_str_value(l) {
                                Some(s) => Value::String(s),
                                None => Value::String(l.to_string()),
                            },
                            TokenTree::Ident(id) => {
                                let s = id.to_string();
                                match s.as_str() {
                                    "true" => Value::Bool(true),
                                    "false" => Value::Bool(false),
                                    _ => Value::String(s),
                                }
                            }
                            TokenTree::Group(g) => {
                                // {"p" = "uri", ...}; keep order and duplicates
                                let inner: Vec<TokenTree> = g.stream().into_iter().collect();
                                let mut pairs = Vec::new();
                                let mut j = 0;
                                while j < inner.len() {
                                    if let TokenTree::Literal(k) = &inner[j] {
                                        let k = lit_str_value(k).unwrap_or_else(|| k.to_string());
                                        let mut v = Value::Null;
                                        if j + 2 < inner.len() {
                                            if let TokenTree::Literal(vl) = &inner[j + 2] {
                                                v = Value::String(lit_str_value(vl).unwrap_or_else(|| vl.to_string()));
                                            }
                                        }
                                        pairs.push(json!([k, v]));
                                        j += 3;
                                    } else {
                                        j += 1;
                                    }
                                }
                                Value::Array(pairs)
                            }
                            other => Value::String(other.to_string()),
                        };
                        i += 1;
                    }
                }
            }
        }
        m.insert(key, val);
        // skip to after next comma
        while i < toks.len() {
            if let TokenTree::Punct(p) = &toks[i] {
                if p.as_char() == ',' {
                    i += 1;
                    break;
                }
            }
            i += 1;
        }
    }
    Value::Object(m)
}

fn attrs_info(attrs: &[syn::Attribute]) -> (Value, Vec<String>, Vec<String>) {
    let mut yas = Map::new();
    let mut docs = Vec::new();
    let mut derives = Vec::new();
    for a in attrs {
        let path = a.path().to_token_stream().to_string();
        match path.as_str() {
            "yaserde" => {
                if let syn::Meta::List(l) = &a.meta {
                    if let Value::Object(m) = parse_yaserde(l.tokens.clone()) {
                        for (k, v) in m {
                            yas.insert(k, v);
                        }
                    }
                }
            }
            "doc" => {
                if let syn::Meta::NameValue(nv) = &a.meta {
                    if let syn::Expr::Lit(syn::ExprLit { lit: syn::Lit::Str(s), .. }) = &nv.value {
                        docs.push(s.value());
                    }
                }
            }
            "derive" => {
                if let syn::Meta::List(l) = &a.meta {
                    for tt in l.tokens.clone() {
                        if let TokenTree::Ident(i) = tt {
                            derives.push(i.to_string());
                        }
                    }
                }
            }
            _ => {}
        }
    }
    (Value::Object(yas), docs, derives)
}

fn is_pub(v: &syn::Visibility) -> bool {
    matches!(v, syn::Visibility::Public(_))
}

fn sig_json(sig: &syn::Signature, vis_pub: bool) -> Value {
    let inputs: Vec<Value> = sig
        .inputs
        .iter()
        .map(|a| match a {
            syn::FnArg::Receiver(r) => json!({"name": "self", "type": normalise_tokens(r.to_token_stream())}),
            syn::FnArg::Typed(t) => {
                json!({"name": normalise_tokens(t.pat.to_token_stream()), "type": type_string(&t.ty)})
            }
        })
        .collect();
    let output = match &sig.output {
        syn::ReturnType::Default => "()".to_string(),
        syn::ReturnType::Type(_, t) => type_string(t),
    };
    json!({
        "name": sig.ident.to_string(),
        "async": sig.asyncness.is_some(),
        "pub": vis_pub,
        "inputs": inputs,
        "output": output,
        "line": sig.ident.span().start().line,
    })
}

struct Acc {
    modules: Vec<Value>,
    structs: Vec<Value>,
    aliases: Vec<Value>,
    impls: Vec<Value>,
    fns: Vec<Value>,
    uses: Vec<Value>,
    others: Vec<Value>,
}

fn walk_items(items: &[syn::Item], module: &str, acc: &mut Acc) {
    for item in items {
        match item {
            syn::Item::Mod(m) => {
                let name = m.ident.to_string();
                let path = if module.is_empty() { name.clone() } else { format!("{module}::{name}") };
                acc.modules.push(json!({"path": path, "pub": is_pub(&m.vis), "line": m.ident.span().start().line,
                    "inline": m.content.is_some()}));
                if let Some((_, items)) = &m.content {
                    walk_items(items, &path, acc);
                }
            }
            syn::Item::Struct(s) => {
                let (yas, docs, derives) = attrs_info(&s.attrs);
                let mut fields = Vec::new();
                let mut kind = "unit";
                match &s.fields {
                    syn::Fields::Named(n) => {
                        kind = "named";
                        for f in &n.named {
                            let (fy, fdocs, _) = attrs_info(&f.attrs);
                            fields.push(json!({
                                "name": f.ident.as_ref().map(|i| i.to_string()).unwrap_or_default(),
                                "pub": is_pub(&f.vis),
                                "type": type_string(&f.ty),
                                "yaserde": fy,
                                "doc": fdocs,
                                "line": f.ident.as_ref().map(|i| i.span().start().line).unwrap_or(0),
                            }));
                        }
                    }
                    syn::Fields::Unnamed(_) => kind = "tuple",
                    syn::Fields::Unit => {}
                }
                acc.structs.push(json!({
                    "module": module, "name": s.ident.to_string(), "pub": is_pub(&s.vis), "kind": kind,
                    "generics": !s.generics.params.is_empty(),
                    "yaserde": yas, "doc": docs, "derives": derives, "fields": fields,
                    "line": s.ident.span().start().line,
                }));
            }
            syn::Item::Type(t) => {
                acc.aliases.push(json!({"module": module, "name": t.ident.to_string(), "pub": is_pub(&t.vis),
                    "type": type_string(&t.ty), "line": t.ident.span().start().line}));
            }
            syn::Item::Impl(i) => {
                let self_ty = type_string(&i.self_ty);
                let tr = i.trait_.as_ref().map(|(_, p, _)| normalise_tokens(p.to_token_stream()));
                let mut fns = Vec::new();
                for ii in &i.items {
                    if let syn::ImplItem::Fn(f) = ii {
                        fns.push(sig_json(&f.sig, is_pub(&f.vis)));
                    }
                }
                acc.impls.push(json!({"module": module, "self_ty": self_ty, "trait": tr,
                    "generics": !i.generics.params.is_empty(), "fns": fns}));
            }
            syn::Item::Fn(f) => {
                let mut v = sig_json(&f.sig, is_pub(&f.vis));
                v["module"] = json!(module);
                acc.fns.push(v);
            }
            syn::Item::Use(u) => {
                acc.uses.push(json!({"module": module, "tree": normalise_tokens(u.tree.to_token_stream())}));
            }
            other => {
                let kind = match other {
                    syn::Item::Const(_) => "const",
                    syn::Item::Enum(_) => "enum",
                    syn::Item::Trait(_) => "trait",
                    syn::Item::Macro(_) => "macro",
                    syn::Item::Static(_) => "static",
                    syn::Item::ExternCrate(_) => "extern_crate",
                    _ => "other",
                };
                let name = match other {
                    syn::Item::Const(c) => c.ident.to_string(),
                    syn::Item::Enum(e) => e.ident.to_string(),
                    syn::Item::Trait(t) => t.ident.to_string(),
                    syn::Item::Static(s) => s.ident.to_string(),
                    syn::Item::ExternCrate(s) => s.ident.to_string(),
                    _ => String::new(),
                };
                acc.others.push(json!({"module": module, "kind": kind, "name": name}));
            }
        }
    }
}

fn census(ts: TokenStream, idents: &mut BTreeSet<String>, strs: &mut Vec<String>, lits: &mut BTreeSet<String>,
          first_path_segments: &mut BTreeSet<String>) {
    let toks: Vec<TokenTree> = ts.into_iter().collect();
    for (i, tt) in toks.iter().enumerate() {
        match tt {
            TokenTree::Group(g) => census(g.stream(), idents, strs, lits, first_path_segments),
            TokenTree::Ident(id) => {
                let s = id.to_string();
                // an ident followed by `::` and not preceded by `::` starts a path
                let followed = matches!((toks.get(i + 1), toks.get(i + 2)),
                    (Some(TokenTree::Punct(a)), Some(TokenTree::Punct(b))) if a.as_char() == ':' && b.as_char() == ':');
                let preceded = i >= 2
                    && matches!((&toks[i - 1], &toks[i - 2]),
                    (TokenTree::Punct(a), TokenTree::Punct(b)) if a.as_char() == ':' && b.as_char() == ':');
                if followed && !preceded {
                    first_path_segments.insert(s.clone());
                }
                idents.insert(s);
            }
            TokenTree::Literal(l) => match lit_str_value(l) {
                Some(v) => strs.push(v),
                None => {
                    lits.insert(l.to_string());
                }
            },
            TokenTree::Punct(_) => {}
        }
    }
}

/// Describe a Rust source text. Never panics on bad input: returns {"ok": false, "error": ...}.
pub fn describe(src: &str, with_census: bool) -> Value {
    let file = match syn::parse_file(src) {
        Ok(f) => f,
        Err(e) => {
            let s = e.span().start();
            return json!({"ok": false, "error": e.to_string(), "line": s.line, "column": s.column});
        }
    };
    let mut acc = Acc {
        modules: vec![], structs: vec![], aliases: vec![], impls: vec![], fns: vec![], uses: vec![], others: vec![],
    };
    walk_items(&file.items, "", &mut acc);
    let mut out = json!({
        "ok": true,
        "modules": acc.modules, "structs": acc.structs, "aliases": acc.aliases, "impls": acc.impls,
        "fns": acc.fns, "uses": acc.uses, "others": acc.others,
    });
    if with_census {
        let mut idents = BTreeSet::new();
        let mut strs = Vec::new();
        let mut lits = BTreeSet::new();
        let mut firsts = BTreeSet::new();
        census(file.to_token_stream(), &mut idents, &mut strs, &mut lits, &mut firsts);
        out["idents"] = json!(idents);
        out["lit_strs"] = json!(strs);
        out["other_lits"] = json!(lits);
        out["path_heads"] = json!(firsts);
    }
    out
}

/// Only the `(module, struct name)` list, cheap — used by the import-graph sweep.
pub fn struct_names(src: &str) -> Result<Vec<(String, String)>, String> {
    let v = describe(src, false);
    if v["ok"] != json!(true) {
        return Err(v["error"].as_str().unwrap_or("parse error").to_string());
    }
    Ok(v["structs"]
        .as_array()
        .unwrap()
        .iter()
        .map(|s| (s["module"].as_str().unwrap().to_string(), s["name"].as_str().unwrap().to_string()))
        .collect())
}
