//! hharness: engine H. Compiles the helper source of the tree under test *unmodified, by path* and
//! checks it against reference semantics over bounded, completely enumerated domains.
//!
//!   hharness c06 [wide]   restriction predicate vs. XSD facet semantics   (property C06)
//!   hharness c19          MultiRef<T> transparency                         (property C19)
//!
//! Output: JSON lines. `{"v": {...}}` per distinct violation signature (first witness + count is in
//! the final summary), `{"summary": {...}}` last.

#![allow(dead_code)]
#![allow(unused_imports)]

#[path = "/repo/zeep-lib/src/model/helpers_content.rs"]
mod hc;

mod c06;
mod c19;

fn main() {
    let args: Vec<String> = std::env::args().collect();
    match args.get(1).map(String::as_str) {
        Some("c06") => c06::run(args.get(2).map(String::as_str) == Some("wide")),
        Some("c19") => c19::run(),
        _ => {
            eprintln!("usage: hharness c06 [wide] | c19");
            std::process::exit(2);
        }
    }
}

/// Minimal JSON string escaping (the harness has no serde).
pub fn js(s: &str) -> String {
    let mut o = String::with_capacity(s.len() + 2);
    o.push('"');
    for c in s.chars() {
        match c {
            '"' => o.push_str("\\\""),
            '\\' => o.push_str("\\\\"),
            '\n' => o.push_str("\\n"),
            '\r' => o.push_str("\\r"),
            '\t' => o.push_str("\\t"),
            c if (c as u32) < 0x20 => o.push_str(&format!("\\u{:04x}", c as u32)),
            c => o.push(c),
        }
    }
    o.push('"');
    o
}
