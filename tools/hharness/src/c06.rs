//! C06: `check_restrictions` accepts a value exactly when it satisfies every facet (XSD semantics).
//! The reference predicate below is written from the XSD definitions with i128 arithmetic and
//! character counts; the helper under test is `hc::restrictions` compiled from /repo by path.

use crate::hc::restrictions::{CheckRestrictions, Restrictions};
use crate::js;
use std::collections::BTreeMap;
use std::rc::Rc;

#[derive(Clone, Debug, Default)]
struct R {
    min_inc: Option<i32>,
    max_inc: Option<i32>,
    min_exc: Option<i32>,
    max_exc: Option<i32>,
    length: Option<usize>,
    min_len: Option<usize>,
    max_len: Option<usize>,
    enumeration: Option<Vec<String>>,
}

impl R {
    fn build(&self) -> Rc<Restrictions> {
        Rc::new(Restrictions {
            min_inclusive: self.min_inc,
            max_inclusive: self.max_inc,
            min_exclusive: self.min_exc,
            max_exclusive: self.max_exc,
            length: self.length,
            min_length: self.min_len,
            max_length: self.max_len,
            enumeration: self.enumeration.clone(),
        })
    }
    fn has_numeric(&self) -> bool {
        self.min_inc.is_some() || self.max_inc.is_some() || self.min_exc.is_some() || self.max_exc.is_some()
    }
    fn describe(&self) -> String {
        let o = |x: &Option<i32>| x.map_or("null".to_string(), |v| v.to_string());
        let u = |x: &Option<usize>| x.map_or("null".to_string(), |v| v.to_string());
        let e = match &self.enumeration {
            None => "null".to_string(),
            Some(v) => format!("[{}]", v.iter().map(|s| js(s)).collect::<Vec<_>>().join(",")),
        };
        format!(
            "{{\"minInclusive\":{},\"maxInclusive\":{},\"minExclusive\":{},\"maxExclusive\":{},\"length\":{},\"minLength\":{},\"maxLength\":{},\"enumeration\":{}}}",
            o(&self.min_inc), o(&self.max_inc), o(&self.min_exc), o(&self.max_exc),
            u(&self.length), u(&self.min_len), u(&self.max_len), e
        )
    }
}

/// Reference: first violated numeric facet of integer value v, or None.
fn ref_numeric(v: i128, r: &R) -> Option<(&'static str, i32)> {
    if let Some(b) = r.min_inc {
        if !(v >= b as i128) {
            return Some(("minInclusive", b));
        }
    }
    if let Some(b) = r.max_inc {
        if !(v <= b as i128) {
            return Some(("maxInclusive", b));
        }
    }
    if let Some(b) = r.min_exc {
        if !(v > b as i128) {
            return Some(("minExclusive", b));
        }
    }
    if let Some(b) = r.max_exc {
        if !(v < b as i128) {
            return Some(("maxExclusive", b));
        }
    }
    None
}

/// Reference for integer carriers: the numeric facets, then membership in the enumeration — in the value space, as XSD
/// compares the values of an integer type: 7 is a member of {"007"} and of {"+7"}, no integer is a member of {"a"} or of {}.
fn ref_int(v: i128, r: &R) -> Option<(&'static str, i32)> {
    if let Some(hit) = ref_numeric(v, r) {
        return Some(hit);
    }
    if let Some(e) = &r.enumeration {
        if !e.iter().any(|m| xsd_integer(m) == Some(v)) {
            return Some(("enumeration", 0));
        }
    }
    None
}

/// XSD integer lexical form `[+-]?[0-9]+` → value (i128 is ample for the domain).
fn xsd_integer(s: &str) -> Option<i128> {
    let t = s.strip_prefix('+').or_else(|| s.strip_prefix('-')).unwrap_or(s);
    if t.is_empty() || !t.bytes().all(|b| b.is_ascii_digit()) || t.len() > 30 {
        return None;
    }
    s.strip_prefix('+').unwrap_or(s).parse::<i128>().ok()
}

/// Reference for strings: first violated facet name (and a relation word) or None.
fn ref_string(s: &str, r: &R) -> Option<(&'static str, String)> {
    let n = s.chars().count();
    if let Some(l) = r.min_len {
        if n < l {
            return Some(("minLength", "count<bound".into()));
        }
    }
    if let Some(l) = r.max_len {
        if n > l {
            return Some(("maxLength", "count>bound".into()));
        }
    }
    if let Some(l) = r.length {
        if n != l {
            return Some(("length", if n < l { "count<bound".into() } else { "count>bound".into() }));
        }
    }
    if let Some(e) = &r.enumeration {
        if !e.iter().any(|x| x == s) {
            return Some(("enumeration", "not-member".into()));
        }
    }
    if r.has_numeric() {
        match xsd_integer(s) {
            None => return Some(("numeric-lexical", "not-an-integer".into())),
            Some(v) => {
                if let Some((f, b)) = ref_numeric(v, r) {
                    return Some((f, relation(v, b)));
                }
            }
        }
    }
    None
}

fn relation(v: i128, b: i32) -> String {
    let b = b as i128;
    let base = if v < b { "v<b" } else if v == b { "v==b" } else { "v>b" };
    if v < i32::MIN as i128 || v > i32::MAX as i128 {
        format!("{base},v-outside-i32")
    } else {
        base.to_string()
    }
}

struct Rec {
    evals: u64,
    accepts: u64,
    rejects: u64,
    per_class: BTreeMap<String, u64>,
    viol: BTreeMap<String, (u64, String)>,
    excluded: BTreeMap<String, u64>,
}

impl Rec {
    fn note(&mut self, class: &str, expected_ok: bool, actual: &Result<(), String>, sig: impl FnOnce() -> String, witness: impl FnOnce() -> String) {
        self.evals += 1;
        *self.per_class.entry(class.to_string()).or_default() += 1;
        if actual.is_ok() {
            self.accepts += 1;
        } else {
            self.rejects += 1;
        }
        if expected_ok != actual.is_ok() {
            let s = sig();
            let e = self.viol.entry(s).or_insert_with(|| (0, witness()));
            e.0 += 1;
        }
    }
}

fn facet_from_msg(msg: &str) -> &'static str {
    for f in ["minInclusive", "maxInclusive", "minExclusive", "maxExclusive", "minLength", "maxLength", "length", "enumeration"] {
        if msg.contains(f) {
            return match f {
                "minInclusive" => "minInclusive",
                "maxInclusive" => "maxInclusive",
                "minExclusive" => "minExclusive",
                "maxExclusive" => "maxExclusive",
                "minLength" => "minLength",
                "maxLength" => "maxLength",
                "length" => "length",
                _ => "enumeration",
            };
        }
    }
    if msg.contains("out of range") || msg.contains("invalid restriction") || msg.contains("invalid digit") || msg.contains("too large") || msg.contains("too small") {
        "conversion"
    } else {
        "other"
    }
}

fn call<T: CheckRestrictions>(v: &T, r: Option<&R>) -> Result<(), String> {
    match v.check_restrictions(r.map(R::build)) {
        Ok(()) => Ok(()),
        Err(e) => Err(e.to_string()),
    }
}

fn bound_of(r: &R, f: &str) -> Option<i32> {
    match f {
        "minInclusive" => r.min_inc,
        "maxInclusive" => r.max_inc,
        "minExclusive" => r.min_exc,
        "maxExclusive" => r.max_exc,
        _ => None,
    }
}

fn int_case<T: CheckRestrictions + Copy + std::fmt::Display>(rec: &mut Rec, carrier: &str, wrap: &str, v: T, vi: i128, r: Option<&R>, actual: Result<(), String>) {
    let expected = r.and_then(|r| ref_int(vi, r));
    let expected_ok = expected.is_none();
    let _ = v;
    rec.note(
        &format!("{wrap}{carrier}"),
        expected_ok,
        &actual,
        || {
            let (facet, rel) = match (&expected, &actual) {
                (Some((f, _)), _) if *f == "enumeration" => ("enumeration".to_string(), "not-member".to_string()),
                (Some((f, b)), _) => ((*f).to_string(), relation(vi, *b)),
                (None, Err(m)) => {
                    let f = facet_from_msg(m);
                    let rel = match r.and_then(|r| bound_of(r, f)) {
                        Some(b) => relation(vi, b),
                        None => if vi < i32::MIN as i128 || vi > i32::MAX as i128 { "v-outside-i32".to_string() } else { "n/a".to_string() },
                    };
                    (f.to_string(), rel)
                }
                _ => ("?".into(), "?".into()),
            };
            format!(
                "C06|int|wrap={}|carrier={carrier}|restrictions={}|facet={facet}|relation={rel}|expected={}|actual={}",
                if wrap.is_empty() { "bare" } else { wrap.trim_end_matches(':') },
                if r.is_some() { "some" } else { "none" },
                if expected_ok { "accept" } else { "reject" },
                if actual.is_ok() { "accept" } else { "reject" }
            )
        },
        || format!("{{\"value\":\"{vi}\",\"carrier\":\"{carrier}\",\"restrictions\":{},\"actual\":{}}}",
            r.map_or("null".to_string(), R::describe), js(&format!("{actual:?}"))),
    );
}

macro_rules! int_carrier {
    ($rec:expr, $t:ty, $name:expr, $bounds:expr, $rsets:expr) => {{
        let mut vals: Vec<i128> = vec![<$t>::MIN as i128, <$t>::MAX as i128, 0];
        for b in $bounds.iter() {
            for d in [-1i128, 0, 1] {
                vals.push(*b as i128 + d);
            }
        }
        // values just outside the i32 range, and the wider carriers' extremes
        for extra in [i32::MAX as i128 + 1, i32::MIN as i128 - 1, u32::MAX as i128, i64::MAX as i128, i64::MIN as i128, u64::MAX as i128, 1i128 << 40, -(1i128 << 40)] {
            vals.push(extra);
        }
        vals.retain(|v| *v >= <$t>::MIN as i128 && *v <= <$t>::MAX as i128);
        vals.sort_unstable();
        vals.dedup();
        for vi in &vals {
            let v = *vi as $t;
            // no restriction set
            int_case($rec, $name, "", v, *vi, None, call(&v, None));
            int_case($rec, $name, "Option:", v, *vi, None, call(&Some(v), None));
            for r in $rsets.iter() {
                int_case($rec, $name, "", v, *vi, Some(r), call(&v, Some(r)));
            }
        }
        // Option / Vec delegation on a sample of restriction sets (every 7th) and all values
        for (ri, r) in $rsets.iter().enumerate() {
            if ri % 7 != 0 { continue; }
            for vi in &vals {
                let v = *vi as $t;
                int_case($rec, $name, "Option:", v, *vi, Some(r), call(&Some(v), Some(r)));
                // None is always accepted
                let a = call(&Option::<$t>::None, Some(r));
                $rec.note(&format!("OptionNone:{}", $name), true, &a,
                    || format!("C06|option-none|carrier={}|expected=accept|actual=reject", $name),
                    || format!("{{\"restrictions\":{}}}", r.describe()));
                // Vec: [0-ish valid?, v] — expected = all elements satisfy
                let w0 = vals[vals.len() / 2] as $t;
                let vecv = vec![w0, v];
                let exp_ok = ref_int(vals[vals.len() / 2], r).is_none() && ref_int(*vi, r).is_none();
                let a = call(&vecv, Some(r));
                $rec.note(&format!("Vec:{}", $name), exp_ok, &a,
                    || format!("C06|vec|carrier={}|expected={}|actual={}", $name, if exp_ok {"accept"} else {"reject"}, if a.is_ok() {"accept"} else {"reject"}),
                    || format!("{{\"values\":[\"{}\",\"{}\"],\"restrictions\":{}}}", vals[vals.len() / 2], vi, r.describe()));
                let a = call(&Vec::<$t>::new(), Some(r));
                $rec.note(&format!("VecEmpty:{}", $name), true, &a,
                    || format!("C06|vec-empty|carrier={}|expected=accept|actual=reject", $name),
                    || format!("{{\"restrictions\":{}}}", r.describe()));
            }
        }
    }};
}

pub fn run(wide: bool) {
    let mut rec = Rec { evals: 0, accepts: 0, rejects: 0, per_class: BTreeMap::new(), viol: BTreeMap::new(), excluded: BTreeMap::new() };
    let mut bounds: Vec<i32> = vec![i32::MIN, -2, -1, 0, 1, 2, 7, i32::MAX];
    if wide {
        bounds.extend([-100, 100, i32::MIN + 1, i32::MAX - 1]);
    }
    let opts: Vec<Option<i32>> = std::iter::once(None).chain(bounds.iter().map(|b| Some(*b))).collect();
    let mut rsets: Vec<R> = Vec::new();
    for a in &opts {
        for b in &opts {
            for c in &opts {
                for d in &opts {
                    rsets.push(R { min_inc: *a, max_inc: *b, min_exc: *c, max_exc: *d, ..Default::default() });
                }
            }
        }
    }
    let n_rsets_numeric = rsets.len();

    // the same sets, and a sample of them together with an enumeration (integer types can be enumerated, too: status codes)
    let int_enums: Vec<Vec<String>> = vec![
        vec!["7".to_string()],
        vec!["0".to_string(), "-1".to_string(), "2147483647".to_string(), "-2147483648".to_string()],
        vec!["007".to_string(), "+1".to_string(), "-0".to_string()],
        vec!["a".to_string()],
        vec![],
        vec!["2147483648".to_string(), "18446744073709551615".to_string(), "-9223372036854775808".to_string(), "1".to_string()],
    ];
    let mut irsets: Vec<R> = rsets.clone();
    for (i, r) in rsets.iter().enumerate() {
        if i == 0 || i % 53 == 0 {
            for e in &int_enums {
                let mut r = r.clone();
                r.enumeration = Some(e.clone());
                irsets.push(r);
            }
        }
    }
    int_carrier!(&mut rec, i8, "i8", bounds, irsets);
    int_carrier!(&mut rec, u8, "u8", bounds, irsets);
    int_carrier!(&mut rec, i16, "i16", bounds, irsets);
    int_carrier!(&mut rec, u16, "u16", bounds, irsets);
    int_carrier!(&mut rec, i32, "i32", bounds, irsets);
    int_carrier!(&mut rec, u32, "u32", bounds, irsets);
    int_carrier!(&mut rec, i64, "i64", bounds, irsets);
    int_carrier!(&mut rec, u64, "u64", bounds, irsets);

    // floats and booleans are never rejected, whatever the set
    let enum_sets: Vec<Option<Vec<String>>> = vec![
        None,
        Some(vec![]),
        Some(vec!["a".to_string()]),
        Some(vec!["é7".to_string(), "a".to_string()]),
        Some(vec![String::new()]),
    ];
    let lens: Vec<Option<usize>> = if wide { vec![None, Some(0), Some(1), Some(2), Some(3), Some(4), Some(5)] } else { vec![None, Some(0), Some(1), Some(2), Some(3), Some(4)] };
    let mut mixed: Vec<R> = Vec::new();
    for (i, r) in rsets.iter().enumerate() {
        if i % 5 == 0 {
            let mut r = r.clone();
            r.length = lens[i % lens.len()];
            r.min_len = lens[(i / 3) % lens.len()];
            r.enumeration = enum_sets[i % enum_sets.len()].clone();
            mixed.push(r);
        }
    }
    for r in mixed.iter() {
        for v in [0.0f64, -1.5, 1e300, f64::MAX, f64::MIN, f64::INFINITY, f64::NAN, 7.0, -0.0] {
            let a = call(&v, Some(r));
            rec.note("f64", true, &a, || "C06|float|carrier=f64|expected=accept|actual=reject".to_string(),
                || format!("{{\"value\":\"{v}\",\"restrictions\":{}}}", r.describe()));
            let v32 = v as f32;
            let a = call(&v32, Some(r));
            rec.note("f32", true, &a, || "C06|float|carrier=f32|expected=accept|actual=reject".to_string(),
                || format!("{{\"value\":\"{v32}\",\"restrictions\":{}}}", r.describe()));
        }
        for b in [true, false] {
            let a = call(&b, Some(r));
            rec.note("bool", true, &a, || "C06|bool|expected=accept|actual=reject".to_string(),
                || format!("{{\"value\":\"{b}\",\"restrictions\":{}}}", r.describe()));
        }
    }
    for v in [0.0f64, f64::NAN, f64::MAX] {
        let a = call(&v, None);
        rec.note("f64", true, &a, || "C06|float|carrier=f64|restrictions=none|expected=accept|actual=reject".to_string(), String::new);
        let a = call(&(v as f32), None);
        rec.note("f32", true, &a, || "C06|float|carrier=f32|restrictions=none|expected=accept|actual=reject".to_string(), String::new);
    }
    for b in [true, false] {
        let a = call(&b, None);
        rec.note("bool", true, &a, || "C06|bool|restrictions=none|expected=accept|actual=reject".to_string(), String::new);
    }

    // strings over a small alphabet with multi-byte characters, all strings up to max_len
    // (a character outside the BMP: one character, two UTF-16 units, four UTF-8 bytes)
    let alphabet = ['a', 'é', '漢', '7', '-', ' ', '\u{1F600}'];
    let max_len = if wide { 5 } else { 4 };
    let mut strings: Vec<String> = vec![String::new()];
    let mut frontier: Vec<String> = vec![String::new()];
    for _ in 0..max_len {
        let mut next = Vec::new();
        for s in &frontier {
            for c in alphabet {
                let mut t = s.clone();
                t.push(c);
                next.push(t);
            }
        }
        strings.extend(next.iter().cloned());
        frontier = next;
    }
    let mut srsets: Vec<R> = Vec::new();
    for l in &lens {
        for mn in &lens {
            for mx in &lens {
                for e in &enum_sets {
                    srsets.push(R { length: *l, min_len: *mn, max_len: *mx, enumeration: e.clone(), ..Default::default() });
                }
            }
        }
    }
    let built: Vec<Rc<Restrictions>> = srsets.iter().map(R::build).collect();
    for s in &strings {
        let a = call(s, None);
        rec.note("String", true, &a, || "C06|string|restrictions=none|expected=accept|actual=reject".to_string(), || js(s));
        for (r, b) in srsets.iter().zip(built.iter()) {
            let actual = match s.check_restrictions(Some(b.clone())) {
                Ok(()) => Ok(()),
                Err(e) => Err(e.to_string()),
            };
            let expected = ref_string(s, r);
            string_note(&mut rec, "String", s, r, expected, actual);
        }
    }
    // Option<String> / Vec<String> delegation
    for (i, s) in strings.iter().enumerate() {
        if i % 11 != 0 {
            continue;
        }
        for (j, r) in srsets.iter().enumerate() {
            if (i + j) % 13 != 0 {
                continue;
            }
            let expected = ref_string(s, r);
            let a = call(&Some(s.clone()), Some(r));
            string_note(&mut rec, "Option:String", s, r, expected.clone(), a);
            let a = call(&Option::<String>::None, Some(r));
            rec.note("OptionNone:String", true, &a, || "C06|option-none|carrier=String|expected=accept|actual=reject".to_string(), || r.describe());
            let other = "a".to_string();
            let exp_vec_ok = expected.is_none() && ref_string(&other, r).is_none();
            let a = call(&vec![other.clone(), s.clone()], Some(r));
            rec.note("Vec:String", exp_vec_ok, &a,
                || format!("C06|vec|carrier=String|expected={}|actual={}", if exp_vec_ok {"accept"} else {"reject"}, if a.is_ok() {"accept"} else {"reject"}),
                || format!("{{\"values\":[\"a\",{}],\"restrictions\":{}}}", js(s), r.describe()));
        }
    }

    // numeric text: String carriers under numeric facets
    let mut numtext: Vec<String> = vec!["-7", "007", "+5", "0", "-0", "7", "2147483647", "2147483648", "-2147483648", "-2147483649",
        "99999999999", "-99999999999", "abc", "", "1.5", "7a", "-", "+", "1e3", "٧"].into_iter().map(String::from).collect();
    for b in &bounds {
        for d in [-1i64, 0, 1] {
            numtext.push((*b as i64 + d).to_string());
        }
    }
    numtext.sort();
    numtext.dedup();
    for s in &numtext {
        for (i, r) in rsets.iter().enumerate() {
            let a = call(s, Some(r));
            let expected = ref_string(s, r);
            string_note(&mut rec, "numtext", s, r, expected, a);
            if i % 9 == 0 {
                // combined with a length / enumeration facet
                let mut r2 = r.clone();
                r2.max_len = Some(3);
                r2.enumeration = if i % 2 == 0 { Some(vec!["7".to_string(), "-7".to_string(), "007".to_string()]) } else { None };
                let a = call(s, Some(&r2));
                let expected = ref_string(s, &r2);
                string_note(&mut rec, "numtext+len", s, &r2, expected, a);
            }
        }
    }
    // the alphabet strings under numeric facets (mostly non-numeric text; padded numerals are excluded:
    // whether " 7" denotes 7 depends on the whiteSpace facet, which the carrier does not know)
    for s in &strings {
        let trimmed = s.trim();
        if trimmed != s && xsd_integer(trimmed).is_some() {
            *rec.excluded.entry("whitespace-padded-numeral".to_string()).or_default() += 1;
            continue;
        }
        for (i, r) in rsets.iter().enumerate() {
            if i % 97 != 0 || !r.has_numeric() {
                continue;
            }
            let a = call(s, Some(r));
            let expected = ref_string(s, r);
            string_note(&mut rec, "alphatext", s, r, expected, a);
        }
    }

    for (sig, (count, witness)) in &rec.viol {
        println!("{{\"v\":{{\"signature\":{},\"count\":{count},\"witness\":{}}}}}", js(sig), if witness.is_empty() { "null".to_string() } else if witness.starts_with('{') || witness.starts_with('"') { witness.clone() } else { js(witness) });
    }
    let per: Vec<String> = rec.per_class.iter().map(|(k, v)| format!("{}:{v}", js(k))).collect();
    let exc: Vec<String> = rec.excluded.iter().map(|(k, v)| format!("{}:{v}", js(k))).collect();
    println!(
        "{{\"summary\":{{\"evaluations\":{},\"accepted\":{},\"rejected\":{},\"numeric_restriction_sets\":{},\"string_restriction_sets\":{},\"strings\":{},\"numeric_texts\":{},\"violating_signatures\":{},\"per_class\":{{{}}},\"excluded\":{{{}}},\"wide\":{}}}}}",
        rec.evals, rec.accepts, rec.rejects, n_rsets_numeric, srsets.len(), strings.len(), numtext.len(), rec.viol.len(), per.join(","), exc.join(","), wide
    );
}

fn string_note(rec: &mut Rec, class: &str, s: &str, r: &R, expected: Option<(&'static str, String)>, actual: Result<(), String>) {
    let expected_ok = expected.is_none();
    rec.note(
        class,
        expected_ok,
        &actual,
        || {
            let (facet, rel) = match (&expected, &actual) {
                (Some((f, rel)), _) => ((*f).to_string(), rel.clone()),
                (None, Err(m)) => {
                    let f = facet_from_msg(m);
                    let rel = match (xsd_integer(s), bound_of(r, f)) {
                        (Some(v), Some(b)) => relation(v, b),
                        (Some(v), None) if f == "conversion" => if v < i32::MIN as i128 || v > i32::MAX as i128 { "v-outside-i32".to_string() } else { "n/a".to_string() },
                        _ => "n/a".to_string(),
                    };
                    (f.to_string(), rel)
                }
                _ => ("?".into(), "?".into()),
            };
            format!(
                "C06|string|class={class}|facet={facet}|relation={rel}|expected={}|actual={}",
                if expected_ok { "accept" } else { "reject" },
                if actual.is_ok() { "accept" } else { "reject" }
            )
        },
        || format!("{{\"value\":{},\"restrictions\":{},\"actual\":{}}}", js(s), r.describe(), js(&format!("{actual:?}"))),
    );
}
