//! C19: MultiRef<T> is observationally transparent (wire format, deserialization, Debug, restriction
//! results, Default) and `clone` shares instead of copying.  `hc::multi_ref` is the helper source of
//! the tree under test compiled unmodified by path; the probe types are hand-written here.

use crate::hc::error::SoapResult;
use crate::hc::multi_ref::MultiRef;
use crate::hc::restrictions::{CheckRestrictions, Restrictions};
use crate::js;
use std::collections::BTreeMap;
use std::rc::Rc;
use std::sync::Arc;
use yaserde_derive::{YaDeserialize, YaSerialize};

// ---------------------------------------------------------------- probe types

#[derive(Debug, Default, Clone, PartialEq, YaSerialize, YaDeserialize)]
#[yaserde(prefix = "p", namespaces = {"p" = "urn:zv:probe"}, rename = "Leaf")]
pub struct Leaf {
    #[yaserde(text = true)]
    pub value: String,
}
impl CheckRestrictions for Leaf {
    fn check_restrictions(&self, r: Option<Rc<Restrictions>>) -> SoapResult<()> {
        self.value.check_restrictions(r)
    }
}

/// A leaf with facets of its own (maxLength 3, enumeration), like an emitted restricted simple type.
#[derive(Debug, Default, Clone, PartialEq, YaSerialize, YaDeserialize)]
#[yaserde(prefix = "p", namespaces = {"p" = "urn:zv:probe"}, rename = "RLeaf")]
pub struct RLeaf {
    #[yaserde(text = true)]
    pub value: String,
}
impl CheckRestrictions for RLeaf {
    fn check_restrictions(&self, _r: Option<Rc<Restrictions>>) -> SoapResult<()> {
        let r = Some(Rc::new(Restrictions { max_length: Some(3), min_length: Some(1), ..Default::default() }));
        self.value.check_restrictions(r)
    }
}

#[derive(Debug, Default, Clone, PartialEq, YaSerialize, YaDeserialize)]
#[yaserde(prefix = "p", namespaces = {"p" = "urn:zv:probe"}, rename = "Attrs")]
pub struct Attrs {
    #[yaserde(attribute = true, rename = "id")]
    pub id: String,
    #[yaserde(attribute = true, rename = "kind")]
    pub kind: Option<String>,
    #[yaserde(attribute = true, rename = "n")]
    pub n: i32,
}
impl CheckRestrictions for Attrs {
    fn check_restrictions(&self, r: Option<Rc<Restrictions>>) -> SoapResult<()> {
        self.id.check_restrictions(r.clone())?;
        self.kind.check_restrictions(r.clone())?;
        self.n.check_restrictions(r)
    }
}

/// An element that looks like a hyperlink / reference: attributes `href`, `id`, `ref` with fragment values are ordinary data.
#[derive(Debug, Default, Clone, PartialEq, YaSerialize, YaDeserialize)]
#[yaserde(prefix = "p", namespaces = {"p" = "urn:zv:probe"}, rename = "Link")]
pub struct Link {
    #[yaserde(attribute = true, rename = "href")]
    pub href: String,
    #[yaserde(attribute = true, rename = "id")]
    pub id: Option<String>,
    #[yaserde(attribute = true, rename = "ref")]
    pub reference: Option<String>,
    #[yaserde(prefix = "p", rename = "title")]
    pub title: String,
}
impl CheckRestrictions for Link {
    fn check_restrictions(&self, r: Option<Rc<Restrictions>>) -> SoapResult<()> {
        self.href.check_restrictions(r.clone())?;
        self.id.check_restrictions(r.clone())?;
        self.reference.check_restrictions(r.clone())?;
        self.title.check_restrictions(r)
    }
}

#[derive(Debug, Default, Clone, PartialEq, YaSerialize, YaDeserialize)]
#[yaserde(prefix = "p", namespaces = {"p" = "urn:zv:probe"}, rename = "Mixed")]
pub struct Mixed {
    #[yaserde(attribute = true, rename = "lang")]
    pub lang: String,
    #[yaserde(prefix = "p", rename = "name")]
    pub name: String,
    #[yaserde(prefix = "p", rename = "count")]
    pub count: i32,
    #[yaserde(prefix = "p", rename = "code")]
    pub code: RLeaf,
}
impl CheckRestrictions for Mixed {
    fn check_restrictions(&self, r: Option<Rc<Restrictions>>) -> SoapResult<()> {
        self.lang.check_restrictions(r.clone())?;
        self.name.check_restrictions(r.clone())?;
        self.count.check_restrictions(r.clone())?;
        self.code.check_restrictions(r)
    }
}

#[derive(Debug, Default, Clone, PartialEq, YaSerialize, YaDeserialize)]
#[yaserde(prefix = "p", namespaces = {"p" = "urn:zv:probe", "q" = "urn:zv:probe:other"}, rename = "Nested")]
pub struct Nested {
    #[yaserde(attribute = true, rename = "rev")]
    pub rev: u8,
    #[yaserde(prefix = "p", rename = "inner")]
    pub inner: Mixed,
    #[yaserde(prefix = "q", rename = "leaf")]
    pub leaf: Leaf,
    #[yaserde(prefix = "p", rename = "attrs")]
    pub attrs: Attrs,
}
impl CheckRestrictions for Nested {
    fn check_restrictions(&self, r: Option<Rc<Restrictions>>) -> SoapResult<()> {
        self.inner.check_restrictions(r.clone())?;
        self.leaf.check_restrictions(r.clone())?;
        self.attrs.check_restrictions(r)
    }
}

#[derive(Debug, Default, Clone, PartialEq, YaSerialize, YaDeserialize)]
#[yaserde(prefix = "p", namespaces = {"p" = "urn:zv:probe"}, rename = "OptRep")]
pub struct OptRep {
    #[yaserde(prefix = "p", rename = "opt")]
    pub opt: Option<RLeaf>,
    #[yaserde(prefix = "p", rename = "rep")]
    pub rep: Vec<Mixed>,
    #[yaserde(prefix = "p", rename = "nums")]
    pub nums: Vec<i32>,
}
impl CheckRestrictions for OptRep {
    fn check_restrictions(&self, r: Option<Rc<Restrictions>>) -> SoapResult<()> {
        self.opt.check_restrictions(r.clone())?;
        self.rep.check_restrictions(r.clone())?;
        self.nums.check_restrictions(r)
    }
}

// self-referential list through MultiRef, and its unrolled bare twin
#[derive(Debug, Default, Clone, YaSerialize, YaDeserialize)]
#[yaserde(prefix = "p", namespaces = {"p" = "urn:zv:probe"}, rename = "Node")]
pub struct NodeW {
    #[yaserde(attribute = true, rename = "tag")]
    pub tag: String,
    #[yaserde(prefix = "p", rename = "val")]
    pub val: i32,
    #[yaserde(prefix = "p", rename = "next")]
    pub next: Option<MultiRef<NodeW>>,
}
impl CheckRestrictions for NodeW {
    fn check_restrictions(&self, r: Option<Rc<Restrictions>>) -> SoapResult<()> {
        self.tag.check_restrictions(r.clone())?;
        self.val.check_restrictions(r.clone())?;
        self.next.check_restrictions(r)
    }
}
macro_rules! node_bare {
    ($name:ident, $next:ident) => {
        #[derive(Debug, Default, Clone, PartialEq, YaSerialize, YaDeserialize)]
        #[yaserde(prefix = "p", namespaces = {"p" = "urn:zv:probe"}, rename = "Node")]
        pub struct $name {
            #[yaserde(attribute = true, rename = "tag")]
            pub tag: String,
            #[yaserde(prefix = "p", rename = "val")]
            pub val: i32,
            #[yaserde(prefix = "p", rename = "next")]
            pub next: Option<$next>,
        }
        impl CheckRestrictions for $name {
            fn check_restrictions(&self, r: Option<Rc<Restrictions>>) -> SoapResult<()> {
                self.tag.check_restrictions(r.clone())?;
                self.val.check_restrictions(r.clone())?;
                self.next.check_restrictions(r)
            }
        }
    };
}
#[derive(Debug, Default, Clone, PartialEq, YaSerialize, YaDeserialize)]
#[yaserde(prefix = "p", namespaces = {"p" = "urn:zv:probe"}, rename = "Node")]
pub struct Node0 {
    #[yaserde(attribute = true, rename = "tag")]
    pub tag: String,
    #[yaserde(prefix = "p", rename = "val")]
    pub val: i32,
}
impl CheckRestrictions for Node0 {
    fn check_restrictions(&self, r: Option<Rc<Restrictions>>) -> SoapResult<()> {
        self.tag.check_restrictions(r.clone())?;
        self.val.check_restrictions(r)
    }
}
node_bare!(Node1, Node0);
node_bare!(Node2, Node1);
node_bare!(Node3, Node2);

// deep trees: node > kids > node > ... (the intermediate element keeps a child element from being named like a member of
// its own struct, which yaserde 0.12 cannot read); the bare twin recurses through Vec, the wrapped one through MultiRef
#[derive(Debug, Default, Clone, PartialEq, YaSerialize, YaDeserialize)]
#[yaserde(prefix = "p", namespaces = {"p" = "urn:zv:probe"}, rename = "node")]
pub struct DeepB {
    #[yaserde(attribute = true, rename = "label")]
    pub label: String,
    #[yaserde(prefix = "p", rename = "kids")]
    pub kids: Option<DeepKidsB>,
}
#[derive(Debug, Default, Clone, PartialEq, YaSerialize, YaDeserialize)]
#[yaserde(prefix = "p", namespaces = {"p" = "urn:zv:probe"}, rename = "kids")]
pub struct DeepKidsB {
    #[yaserde(prefix = "p", rename = "node")]
    pub node: Vec<DeepB>,
}
#[derive(Debug, Default, Clone, YaSerialize, YaDeserialize)]
#[yaserde(prefix = "p", namespaces = {"p" = "urn:zv:probe"}, rename = "node")]
pub struct DeepW {
    #[yaserde(attribute = true, rename = "label")]
    pub label: String,
    #[yaserde(prefix = "p", rename = "kids")]
    pub kids: Option<DeepKidsW>,
}
#[derive(Debug, Default, Clone, YaSerialize, YaDeserialize)]
#[yaserde(prefix = "p", namespaces = {"p" = "urn:zv:probe"}, rename = "kids")]
pub struct DeepKidsW {
    #[yaserde(prefix = "p", rename = "node")]
    pub node: Vec<MultiRef<DeepW>>,
}
fn deep_b(levels: usize, width: usize) -> DeepB {
    let mut n = DeepB { label: format!("l{levels}"), kids: None };
    for l in (0..levels).rev() {
        let mut kids = vec![n];
        for w in 1..width {
            kids.push(DeepB { label: format!("s{l}x{w}"), kids: None });
        }
        n = DeepB { label: format!("l{l}"), kids: Some(DeepKidsB { node: kids }) };
    }
    n
}
fn deep_w(levels: usize, width: usize) -> DeepW {
    let mut n = DeepW { label: format!("l{levels}"), kids: None };
    for l in (0..levels).rev() {
        let mut kids = vec![MultiRef::new(n)];
        for w in 1..width {
            kids.push(MultiRef::new(DeepW { label: format!("s{l}x{w}"), kids: None }));
        }
        n = DeepW { label: format!("l{l}"), kids: Some(DeepKidsW { node: kids }) };
    }
    n
}

// holders: the same struct once with bare members, once with wrapped members
macro_rules! holders {
    ($bare:ident, $wrapped:ident, $t:ident) => {
        #[derive(Debug, Default, YaSerialize, YaDeserialize)]
        #[yaserde(prefix = "p", namespaces = {"p" = "urn:zv:probe", "q" = "urn:zv:probe:other"}, rename = "Holder")]
        pub struct $bare {
            #[yaserde(attribute = true, rename = "hid")]
            pub hid: String,
            #[yaserde(prefix = "p", rename = "hitem")]
            pub item: $t,
            #[yaserde(prefix = "p", rename = "hopt")]
            pub opt: Option<$t>,
            #[yaserde(prefix = "p", rename = "hrep")]
            pub rep: Vec<$t>,
            #[yaserde(prefix = "p", rename = "tail")]
            pub tail: String,
        }
        #[derive(Debug, Default, YaSerialize, YaDeserialize)]
        #[yaserde(prefix = "p", namespaces = {"p" = "urn:zv:probe", "q" = "urn:zv:probe:other"}, rename = "Holder")]
        pub struct $wrapped {
            #[yaserde(attribute = true, rename = "hid")]
            pub hid: String,
            #[yaserde(prefix = "p", rename = "hitem")]
            pub item: MultiRef<$t>,
            #[yaserde(prefix = "p", rename = "hopt")]
            pub opt: Option<MultiRef<$t>>,
            #[yaserde(prefix = "p", rename = "hrep")]
            pub rep: Vec<MultiRef<$t>>,
            #[yaserde(prefix = "p", rename = "tail")]
            pub tail: String,
        }
        impl CheckRestrictions for $bare {
            fn check_restrictions(&self, r: Option<Rc<Restrictions>>) -> SoapResult<()> {
                self.item.check_restrictions(r.clone())?;
                self.opt.check_restrictions(r.clone())?;
                self.rep.check_restrictions(r)
            }
        }
        impl CheckRestrictions for $wrapped {
            fn check_restrictions(&self, r: Option<Rc<Restrictions>>) -> SoapResult<()> {
                self.item.check_restrictions(r.clone())?;
                self.opt.check_restrictions(r.clone())?;
                self.rep.check_restrictions(r)
            }
        }
        impl Holder<$t> for ($bare, $wrapped) {
            fn build(v: &$t, opt: bool, reps: usize) -> ($bare, $wrapped) {
                (
                    $bare {
                        hid: "h1".into(),
                        item: v.clone(),
                        opt: if opt { Some(v.clone()) } else { None },
                        rep: (0..reps).map(|_| v.clone()).collect(),
                        tail: "t".into(),
                    },
                    $wrapped {
                        hid: "h1".into(),
                        item: MultiRef::new(v.clone()),
                        opt: if opt { Some(MultiRef::new(v.clone())) } else { None },
                        rep: (0..reps).map(|_| MultiRef::new(v.clone())).collect(),
                        tail: "t".into(),
                    },
                )
            }
        }
    };
}

pub trait Holder<T> {
    fn build(v: &T, opt: bool, reps: usize) -> Self;
}

holders!(HLeafB, HLeafW, Leaf);
holders!(HRLeafB, HRLeafW, RLeaf);
holders!(HAttrsB, HAttrsW, Attrs);
holders!(HMixedB, HMixedW, Mixed);
holders!(HNestedB, HNestedW, Nested);
holders!(HOptRepB, HOptRepW, OptRep);
holders!(HLinkB, HLinkW, Link);

// flattened member: the holder writes the member's attributes on its own start tag and its children among its own
macro_rules! flat_holders {
    ($bare:ident, $wrapped:ident, $t:ident) => {
        #[derive(Debug, Default, YaSerialize, YaDeserialize)]
        #[yaserde(prefix = "p", namespaces = {"p" = "urn:zv:probe", "q" = "urn:zv:probe:other"}, rename = "Flat")]
        pub struct $bare {
            #[yaserde(attribute = true, rename = "fkind")]
            pub fkind: String,
            #[yaserde(prefix = "p", rename = "head")]
            pub head: String,
            #[yaserde(flatten = true)]
            pub inner: $t,
            #[yaserde(prefix = "p", rename = "tail")]
            pub tail: String,
        }
        #[derive(Debug, Default, YaSerialize, YaDeserialize)]
        #[yaserde(prefix = "p", namespaces = {"p" = "urn:zv:probe", "q" = "urn:zv:probe:other"}, rename = "Flat")]
        pub struct $wrapped {
            #[yaserde(attribute = true, rename = "fkind")]
            pub fkind: String,
            #[yaserde(prefix = "p", rename = "head")]
            pub head: String,
            #[yaserde(flatten = true)]
            pub inner: MultiRef<$t>,
            #[yaserde(prefix = "p", rename = "tail")]
            pub tail: String,
        }
        impl CheckRestrictions for $bare {
            fn check_restrictions(&self, r: Option<Rc<Restrictions>>) -> SoapResult<()> {
                self.inner.check_restrictions(r)
            }
        }
        impl CheckRestrictions for $wrapped {
            fn check_restrictions(&self, r: Option<Rc<Restrictions>>) -> SoapResult<()> {
                self.inner.check_restrictions(r)
            }
        }
        impl Holder<$t> for ($bare, $wrapped) {
            fn build(v: &$t, opt: bool, reps: usize) -> ($bare, $wrapped) {
                let fkind = if opt { "k&" } else { "" };
                let head = format!("h{}", "h".repeat(reps));
                (
                    $bare { fkind: fkind.into(), head: head.clone(), inner: v.clone(), tail: "t".into() },
                    $wrapped { fkind: fkind.into(), head, inner: MultiRef::new(v.clone()), tail: "t".into() },
                )
            }
        }
    };
}
flat_holders!(FAttrsB, FAttrsW, Attrs);
flat_holders!(FMixedB, FMixedW, Mixed);
flat_holders!(FNestedB, FNestedW, Nested);
flat_holders!(FOptRepB, FOptRepW, OptRep);
flat_holders!(FLinkB, FLinkW, Link);

// ---------------------------------------------------------------- recorder

struct Rec {
    comparisons: u64,
    values: u64,
    per_probe: BTreeMap<String, u64>,
    per_check: BTreeMap<String, u64>,
    viol: BTreeMap<String, (u64, String)>,
    both_failed: BTreeMap<String, u64>,
    samples: Vec<String>,
}

impl Rec {
    fn cmp(&mut self, check: &str, probe: &str, bare: &str, wrapped: &str) {
        self.comparisons += 1;
        *self.per_check.entry(check.to_string()).or_default() += 1;
        if bare != wrapped {
            let sig = format!("C19|{check}|probe={probe}");
            let e = self
                .viol
                .entry(sig)
                .or_insert_with(|| (0, format!("{{\"bare\":{},\"wrapped\":{}}}", js(bare), js(wrapped))));
            e.0 += 1;
        }
    }
    fn truth(&mut self, check: &str, probe: &str, ok: bool, detail: &str) {
        self.comparisons += 1;
        *self.per_check.entry(check.to_string()).or_default() += 1;
        if !ok {
            let sig = format!("C19|{check}|probe={probe}");
            let e = self.viol.entry(sig).or_insert_with(|| (0, js(detail)));
            e.0 += 1;
        }
    }
}

/// Debug text of a holder without the holder's own type name (the two holders are named differently).
fn hd<T: std::fmt::Debug>(v: &T) -> String {
    let s = format!("{v:?}");
    match s.split_once(' ') {
        Some((_, rest)) => format!("Holder {rest}"),
        None => s,
    }
}

fn rs<T: std::fmt::Debug>(r: Result<T, String>) -> String {
    match r {
        Ok(v) => format!("Ok:{v:?}"),
        Err(e) => format!("Err:{e}"),
    }
}

fn restr_sets() -> Vec<Option<Rc<Restrictions>>> {
    vec![
        None,
        Some(Rc::new(Restrictions { max_length: Some(2), ..Default::default() })),
        Some(Rc::new(Restrictions { min_length: Some(1), enumeration: Some(vec!["a".into(), "en".into()]), ..Default::default() })),
        Some(Rc::new(Restrictions { min_inclusive: Some(0), max_inclusive: Some(7), ..Default::default() })),
    ]
}

fn chk<T: CheckRestrictions>(v: &T, r: &Option<Rc<Restrictions>>) -> String {
    match v.check_restrictions(r.clone()) {
        Ok(()) => "Ok".to_string(),
        Err(e) => format!("Err:{e}"),
    }
}

fn probe_root<T>(rec: &mut Rec, probe: &str, values: &[T])
where
    T: Clone + std::fmt::Debug + PartialEq + Default + yaserde::YaSerialize + yaserde::YaDeserialize + CheckRestrictions,
{
    for v in values {
        if std::env::var_os("HH_TRACE").is_some() { eprintln!("root {probe} {v:?}"); }
        rec.values += 1;
        *rec.per_probe.entry(probe.to_string()).or_default() += 1;
        let bare_ser = yaserde::ser::to_string(v);
        let wrapped = MultiRef::new(v.clone());
        let wrapped_ser = yaserde::ser::to_string(&wrapped);
        rec.cmp("ser-root", probe, &rs(bare_ser.clone()), &rs(wrapped_ser));
        rec.cmp("debug", probe, &format!("{v:?}"), &format!("{wrapped:?}"));
        rec.truth("deref-eq", probe, **wrapped == *v, "value seen through Deref differs from the wrapped value");
        if let Ok(text) = &bare_ser {
            let b = yaserde::de::from_str::<T>(text);
            let w = yaserde::de::from_str::<MultiRef<T>>(text);
            if b.is_err() && w.is_err() {
                *rec.both_failed.entry(format!("de-root:{probe}")).or_default() += 1;
            }
            if let (Ok(bv), Ok(wv)) = (&b, &w) {
                rec.truth("de-eq", probe, ***wv == *bv, "deserialized wrapped value differs from deserialized bare value");
            }
            rec.cmp("de", probe, &rs(b), &rs(w));
            if rec.samples.len() < 6 && rec.values % 97 == 1 {
                rec.samples.push(format!("{{\"probe\":{},\"xml\":{}}}", js(probe), js(text)));
            }
        }
        for r in restr_sets() {
            rec.cmp("restrictions", probe, &chk(v, &r), &chk(&wrapped, &r));
        }
        let c = wrapped.clone();
        rec.truth("clone-shares", probe, Arc::ptr_eq(&*wrapped, &*c), "clone() produced a different allocation");
        // a value that is shared (a second holder is alive) is checked like any other, through either holder
        for r in restr_sets() {
            rec.cmp("restrictions-while-shared", probe, &chk(v, &r), &chk(&wrapped, &r));
            rec.cmp("restrictions-while-shared", probe, &chk(v, &r), &chk(&c, &r));
        }
        // every way a clone can be taken shares: clone_from onto a fresh value, and through Vec / Option
        let mut fresh = MultiRef::new(T::default());
        fresh.clone_from(&wrapped);
        rec.truth("clone-from-shares", probe, Arc::ptr_eq(&*wrapped, &*fresh), "clone_from() copied the value");
        let src = vec![wrapped.clone(), wrapped.clone()];
        let mut dst = vec![MultiRef::new(T::default()), MultiRef::new(T::default()), MultiRef::new(T::default())];
        dst.clone_from(&src);
        rec.truth("clone-from-shares", probe, dst.len() == 2 && dst.iter().all(|d| Arc::ptr_eq(&**d, &*wrapped)), "Vec::clone_from copied the values");
        let mut od = Some(MultiRef::new(T::default()));
        od.clone_from(&Some(wrapped.clone()));
        rec.truth("clone-from-shares", probe, od.as_ref().is_some_and(|d| Arc::ptr_eq(&**d, &*wrapped)), "Option::clone_from copied the value");
        drop((fresh, src, dst, od));
        rec.truth("clone-count", probe, Arc::strong_count(&*wrapped) == 2, "strong count after one clone is not 2");
    }
    rec.cmp("default", probe, &format!("{:?}", T::default()), &format!("{:?}", MultiRef::<T>::default()));
}

fn probe_field<T, B, W>(rec: &mut Rec, probe: &str, values: &[T])
where
    T: Clone,
    (B, W): Holder<T>,
    B: std::fmt::Debug + yaserde::YaSerialize + yaserde::YaDeserialize + CheckRestrictions + Default,
    W: std::fmt::Debug + yaserde::YaSerialize + yaserde::YaDeserialize + CheckRestrictions + Default,
{
    for (i, v) in values.iter().enumerate() {
        for (opt, reps) in [(false, 0usize), (true, 1), (true, 3), (false, 2)] {
            if i % 3 != 0 && reps == 3 {
                continue;
            }
            let (b, w): (B, W) = Holder::build(v, opt, reps);
            if std::env::var_os("HH_TRACE").is_some() { eprintln!("field {probe} {b:?}"); }
            let bs = yaserde::ser::to_string(&b);
            let ws = yaserde::ser::to_string(&w);
            rec.cmp("ser-field", probe, &rs(bs.clone()), &rs(ws));
            rec.cmp("debug-field", probe, &hd(&b), &hd(&w));
            if let Ok(text) = &bs {
                if std::env::var_os("HH_TRACE").is_some() { eprintln!("de-bare {text}"); }
                let bd = yaserde::de::from_str::<B>(text);
                if std::env::var_os("HH_TRACE").is_some() { eprintln!("de-wrapped"); }
                let wd = yaserde::de::from_str::<W>(text);
                if bd.is_err() && wd.is_err() {
                    *rec.both_failed.entry(format!("de-field:{probe}")).or_default() += 1;
                }
                // error texts name the holder struct, and the two holders are named differently
                let nb = std::any::type_name::<B>().rsplit("::").next().unwrap_or("");
                let nw = std::any::type_name::<W>().rsplit("::").next().unwrap_or("");
                rec.cmp("de-field", probe, &rs(bd.map(|v| hd(&v))).replace(nb, "Holder"), &rs(wd.map(|v| hd(&v))).replace(nw, "Holder"));
                if rec.samples.len() < 12 && i == 1 && reps == 1 {
                    rec.samples.push(format!("{{\"probe\":{},\"holder_xml\":{}}}", js(probe), js(text)));
                }
            }
            for r in restr_sets() {
                rec.cmp("restrictions-field", probe, &chk(&b, &r), &chk(&w, &r));
            }
        }
    }
    rec.cmp("default-field", probe, &hd(&B::default()), &hd(&W::default()));
}

fn texts() -> Vec<String> {
    ["", "a", "en", "é<&>\"'", " x ", "漢字漢字", "]]>", "line1\nline2"].iter().map(|s| (*s).to_string()).collect()
}

pub fn run() {
    let mut rec = Rec {
        comparisons: 0, values: 0, per_probe: BTreeMap::new(), per_check: BTreeMap::new(), viol: BTreeMap::new(),
        both_failed: BTreeMap::new(), samples: vec![],
    };
    let ints = [i32::MIN, -1, 0, 7, 8, i32::MAX];

    let leaves: Vec<Leaf> = texts().into_iter().map(|value| Leaf { value }).collect();
    let rleaves: Vec<RLeaf> = texts().into_iter().map(|value| RLeaf { value }).collect();
    let mut attrs = Vec::new();
    for id in texts() {
        for kind in [None, Some(String::new()), Some("k".to_string()), Some("a&b".to_string())] {
            for n in ints {
                attrs.push(Attrs { id: id.clone(), kind: kind.clone(), n });
            }
        }
    }
    let mut mixed = Vec::new();
    for lang in ["", "en", "é"] {
        for name in texts() {
            for count in ints {
                for code in ["", "a", "abcd"] {
                    mixed.push(Mixed { lang: lang.into(), name: name.clone(), count, code: RLeaf { value: code.into() } });
                }
            }
        }
    }
    let mut nested = Vec::new();
    for (i, m) in mixed.iter().enumerate() {
        if i % 5 != 0 {
            continue;
        }
        for rev in [0u8, 255] {
            nested.push(Nested { rev, inner: m.clone(), leaf: leaves[i % leaves.len()].clone(), attrs: attrs[i % attrs.len()].clone() });
        }
    }
    let mut optrep = Vec::new();
    for opt in [None, Some(RLeaf { value: "ab".into() }), Some(RLeaf { value: "toolong".into() })] {
        for reps in [0usize, 1, 3] {
            for nums in [vec![], vec![7], vec![-1, 0, 8]] {
                for k in 0..6 {
                    optrep.push(OptRep {
                        opt: opt.clone(),
                        rep: (0..reps).map(|j| mixed[(k * 37 + j * 11) % mixed.len()].clone()).collect(),
                        nums: nums.clone(),
                    });
                }
            }
        }
    }

    let mut links = Vec::new();
    for href in ["#intro", "#id1", "#", "", "http://zv.test/doc#part", "cid:part1", "id1"] {
        for id in [None, Some("id1".to_string()), Some("#id1".to_string())] {
            for reference in [None, Some("#id1".to_string())] {
                for title in ["", "t", "é<&>"] {
                    links.push(Link { href: href.into(), id: id.clone(), reference: reference.clone(), title: title.into() });
                }
            }
        }
    }

    probe_root(&mut rec, "text-only", &leaves);
    probe_root(&mut rec, "reference-like-attributes", &links);
    probe_root(&mut rec, "restricted-leaf", &rleaves);
    probe_root(&mut rec, "attributes-only", &attrs);
    probe_root(&mut rec, "attributes+children", &mixed);
    probe_root(&mut rec, "nested-two-levels", &nested);
    probe_root(&mut rec, "optional+repeated", &optrep);

    probe_field::<Leaf, HLeafB, HLeafW>(&mut rec, "text-only", &leaves);
    probe_field::<RLeaf, HRLeafB, HRLeafW>(&mut rec, "restricted-leaf", &rleaves);
    probe_field::<Attrs, HAttrsB, HAttrsW>(&mut rec, "attributes-only", &attrs[..attrs.len().min(96)]);
    probe_field::<Mixed, HMixedB, HMixedW>(&mut rec, "attributes+children", &mixed[..mixed.len().min(144)]);
    probe_field::<Nested, HNestedB, HNestedW>(&mut rec, "nested-two-levels", &nested[..nested.len().min(60)]);
    probe_field::<OptRep, HOptRepB, HOptRepW>(&mut rec, "optional+repeated", &optrep[..optrep.len().min(60)]);

    probe_field::<Link, HLinkB, HLinkW>(&mut rec, "reference-like-attributes", &links);
    probe_field::<Link, FLinkB, FLinkW>(&mut rec, "flattened:reference-like-attributes", &links);

    // the same values as a flattened member (signatures carry the position in the probe name)
    probe_field::<Attrs, FAttrsB, FAttrsW>(&mut rec, "flattened:attributes-only", &attrs[..attrs.len().min(96)]);
    probe_field::<Mixed, FMixedB, FMixedW>(&mut rec, "flattened:attributes+children", &mixed[..mixed.len().min(144)]);
    probe_field::<Nested, FNestedB, FNestedW>(&mut rec, "flattened:nested-two-levels", &nested[..nested.len().min(60)]);
    probe_field::<OptRep, FOptRepB, FOptRepW>(&mut rec, "flattened:optional+repeated", &optrep[..optrep.len().min(60)]);

    // self-referential list, depth 0..3, against its unrolled bare twin
    for tag in ["", "t", "é&"] {
        for val in ints {
            let n0 = Node0 { tag: tag.into(), val };
            let n1 = Node1 { tag: tag.into(), val, next: Some(n0.clone()) };
            let n2 = Node2 { tag: "x".into(), val: val.wrapping_add(1), next: Some(n1.clone()) };
            let n3 = Node3 { tag: tag.into(), val, next: Some(n2.clone()) };
            let w0 = NodeW { tag: tag.into(), val, next: None };
            let w1 = NodeW { tag: tag.into(), val, next: Some(MultiRef::new(w0.clone())) };
            let w2 = NodeW { tag: "x".into(), val: val.wrapping_add(1), next: Some(MultiRef::new(w1.clone())) };
            let w3 = NodeW { tag: tag.into(), val, next: Some(MultiRef::new(w2.clone())) };
            let pairs: [(String, String, String, String, String); 4] = [
                (rs(yaserde::ser::to_string(&n0)), rs(yaserde::ser::to_string(&w0)), format!("{n0:?}"), chk(&n0, &None), chk(&w0, &None)),
                (rs(yaserde::ser::to_string(&n1)), rs(yaserde::ser::to_string(&w1)), format!("{n1:?}"), chk(&n1, &None), chk(&w1, &None)),
                (rs(yaserde::ser::to_string(&n2)), rs(yaserde::ser::to_string(&w2)), format!("{n2:?}"), chk(&n2, &None), chk(&w2, &None)),
                (rs(yaserde::ser::to_string(&n3)), rs(yaserde::ser::to_string(&w3)), format!("{n3:?}"), chk(&n3, &None), chk(&w3, &None)),
            ];
            for (depth, (b, w, _dbg, cb, cw)) in pairs.iter().enumerate() {
                rec.values += 1;
                *rec.per_probe.entry("self-referential".to_string()).or_default() += 1;
                rec.cmp("ser-root", &format!("self-referential-depth{depth}"), b, w);
                rec.cmp("restrictions", &format!("self-referential-depth{depth}"), cb, cw);
            }
            // Deserialization of the self-referential shape is not exercised: when a child element is named
            // like a member of the child struct (`next` inside `next`, inevitable for a recursive type)
            // yaserde 0.12's derived deserializer loops forever — for plain structs too, so this is not
            // something the wrapper could be blamed for. Wire form, restrictions and sharing are compared.
            let shared = MultiRef::new(w2.clone());
            let a = NodeW { tag: "a".into(), val: 1, next: Some(shared.clone()) };
            let b = NodeW { tag: "b".into(), val: 2, next: Some(shared.clone()) };
            let ok = Arc::ptr_eq(&**a.next.as_ref().unwrap(), &**b.next.as_ref().unwrap()) && Arc::strong_count(&*shared) == 3;
            rec.truth("clone-shares", "self-referential", ok, "two holders of one MultiRef do not share the allocation");
        }
    }

    // deep trees: every level is two elements; the wrapped tree must be written and read like the bare one at any depth
    for levels in [0usize, 1, 2, 5, 15, 16, 17, 18, 31, 32, 33, 64, 100, 200] {
        for width in [1usize, 3] {
            let (b, w) = (deep_b(levels, width), deep_w(levels, width));
            rec.values += 1;
            *rec.per_probe.entry("deep-tree".to_string()).or_default() += 1;
            let probe = format!("deep-tree:levels={}", if levels <= 18 { "<=18" } else if levels <= 33 { "19-33" } else { ">33" });
            let bs = yaserde::ser::to_string(&b);
            let ws = yaserde::ser::to_string(&w);
            rec.cmp("ser-root", &probe, &rs(bs.clone()), &rs(ws));
            if let Ok(text) = &bs {
                let bd = yaserde::de::from_str::<DeepB>(text).map(|v| format!("{v:?}").replace("DeepKidsB", "Kids").replace("DeepB", "Node"));
                let wd = yaserde::de::from_str::<DeepW>(text).map(|v| format!("{v:?}").replace("DeepKidsW", "Kids").replace("DeepW", "Node"));
                if bd.is_err() && wd.is_err() {
                    *rec.both_failed.entry(format!("de-root:{probe}")).or_default() += 1;
                }
                rec.cmp("de", &probe, &rs(bd), &rs(wd));
            }
        }
    }

    for (sig, (count, witness)) in &rec.viol {
        println!("{{\"v\":{{\"signature\":{},\"count\":{count},\"witness\":{witness}}}}}", js(sig));
    }
    let m = |m: &BTreeMap<String, u64>| m.iter().map(|(k, v)| format!("{}:{v}", js(k))).collect::<Vec<_>>().join(",");
    println!(
        "{{\"summary\":{{\"values\":{},\"comparisons\":{},\"per_probe\":{{{}}},\"per_check\":{{{}}},\"both_failed\":{{{}}},\"violating_signatures\":{},\"samples\":[{}]}}}}",
        rec.values, rec.comparisons, m(&rec.per_probe), m(&rec.per_check), m(&rec.both_failed), rec.viol.len(), rec.samples.join(",")
    );
}
