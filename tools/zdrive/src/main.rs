//! zdrive: runs the real zeep-lib entry points on job lists, in-process, and reports outcomes.
//!
//! Protocol (`zdrive worker`): one JSON job per stdin line; for each job a `{"start": id}` line is
//! written and flushed *before* the job runs and a result line after it, so that the orchestrator
//! knows which job was in flight when the process dies (stack overflow, abort, CPU limit).
//!
//! The monitors here sit at the library boundary only: `Files`/`FilesToRead` construction,
//! `XmlReader::read_xml`, `WriteXml::write_xml` on a sink we control, `catch_unwind`, a panic hook.

use serde_json::{json, Value};
use std::collections::BTreeMap;
use std::io::{self, BufRead, Write};
use std::panic::{catch_unwind, AssertUnwindSafe};
use std::sync::Mutex;
use zeep_lib::reader::{Files, FilesToRead, WriteXml, XmlReader};

mod sinks;
use sinks::*;

static LAST_PANIC: Mutex<BTreeMap<String, Value>> = Mutex::new(BTreeMap::new());

fn thread_key() -> String {
    format!("{:?}", std::thread::current().id())
}

fn install_hook() {
    std::panic::set_hook(Box::new(|info| {
        let (file, line) = info.location().map(|l| (l.file().to_string(), l.line())).unwrap_or_default();
        let msg = if let Some(s) = info.payload().downcast_ref::<&str>() {
            (*s).to_string()
        } else if let Some(s) = info.payload().downcast_ref::<String>() {
            s.clone()
        } else {
            "<non-string payload>".to_string()
        };
        let bt = std::backtrace::Backtrace::force_capture().to_string();
        let func = first_repo_frame(&bt);
        LAST_PANIC
            .lock()
            .unwrap()
            .insert(thread_key(), json!({"file": file, "line": line, "msg": msg, "func": func}));
    }));
}

/// First backtrace symbol that belongs to the code under test (closures folded into their fn).
pub fn first_repo_frame(bt: &str) -> String {
    for l in bt.lines() {
        let l = l.trim();
        // lines look like `12: zeep_lib::model::doc::make_abbreviated_namespace`
        if let Some((_, sym)) = l.split_once(": ") {
            let sym = sym.trim();
            let sym = sym.trim_start_matches('<');
            if sym.starts_with("zeep_lib::") || sym.contains(" as zeep_lib::") || sym.contains("zeep_lib::") && !sym.starts_with("zdrive") {
                let mut s = sym.to_string();
                while let Some(p) = s.find("::{{closure}}") {
                    s.replace_range(p..p + "::{{closure}}".len(), "");
                }
                // strip hash suffix ::h0123...
                if let Some(p) = s.rfind("::h") {
                    if s[p + 3..].chars().all(|c| c.is_ascii_hexdigit()) && s.len() - p - 3 == 16 {
                        s.truncate(p);
                    }
                }
                return s;
            }
        }
    }
    String::new()
}

fn take_panic() -> Value {
    LAST_PANIC.lock().unwrap().remove(&thread_key()).unwrap_or(json!({"msg": "<no hook record>"}))
}

fn err_json(e: &dyn std::fmt::Debug, d: &dyn std::fmt::Display) -> Value {
    let dbg = format!("{e:?}");
    let variant: String = dbg.chars().take_while(|c| c.is_alphanumeric() || *c == '_').collect();
    let mut msg = d.to_string();
    if msg.len() > 300 {
        let mut cut = 300;
        while !msg.is_char_boundary(cut) {
            cut -= 1;
        }
        msg.truncate(cut);
    }
    json!({"variant": variant, "msg": msg})
}

fn sha256_hex(data: &[u8]) -> String {
    // small self-contained SHA-256 (no extra crate)
    const K: [u32; 64] = [
        0x428a2f98, 0x71374491, 0xb5c0fbcf, 0xe9b5dba5, 0x3956c25b, 0x59f111f1, 0x923f82a4, 0xab1c5ed5, 0xd807aa98,
        0x12835b01, 0x243185be, 0x550c7dc3, 0x72be5d74, 0x80deb1fe, 0x9bdc06a7, 0xc19bf174, 0xe49b69c1, 0xefbe4786,
        0x0fc19dc6, 0x240ca1cc, 0x2de92c6f, 0x4a7484aa, 0x5cb0a9dc, 0x76f988da, 0x983e5152, 0xa831c66d, 0xb00327c8,
        0xbf597fc7, 0xc6e00bf3, 0xd5a79147, 0x06ca6351, 0x14292967, 0x27b70a85, 0x2e1b2138, 0x4d2c6dfc, 0x53380d13,
        0x650a7354, 0x766a0abb, 0x81c2c92e, 0x92722c85, 0xa2bfe8a1, 0xa81a664b, 0xc24b8b70, 0xc76c51a3, 0xd192e819,
        0xd6990624, 0xf40e3585, 0x106aa070, 0x19a4c116, 0x1e376c08, 0x2748774c, 0x34b0bcb5, 0x391c0cb3, 0x4ed8aa4a,
        0x5b9cca4f, 0x682e6ff3, 0x748f82ee, 0x78a5636f, 0x84c87814, 0x8cc70208, 0x90befffa, 0xa4506ceb, 0xbef9a3f7,
        0xc67178f2,
    ];
    let mut h: [u32; 8] =
        [0x6a09e667, 0xbb67ae85, 0x3c6ef372, 0xa54ff53a, 0x510e527f, 0x9b05688c, 0x1f83d9ab, 0x5be0cd19];
    let mut msg = data.to_vec();
    let bitlen = (data.len() as u64) * 8;
    msg.push(0x80);
    while msg.len() % 64 != 56 {
        msg.push(0);
    }
    msg.extend_from_slice(&bitlen.to_be_bytes());
    for chunk in msg.chunks(64) {
        let mut w = [0u32; 64];
        for i in 0..16 {
            w[i] = u32::from_be_bytes([chunk[4 * i], chunk[4 * i + 1], chunk[4 * i + 2], chunk[4 * i + 3]]);
        }
        for i in 16..64 {
            let s0 = w[i - 15].rotate_right(7) ^ w[i - 15].rotate_right(18) ^ (w[i - 15] >> 3);
            let s1 = w[i - 2].rotate_right(17) ^ w[i - 2].rotate_right(19) ^ (w[i - 2] >> 10);
            w[i] = w[i - 16].wrapping_add(s0).wrapping_add(w[i - 7]).wrapping_add(s1);
        }
        let (mut a, mut b, mut c, mut d, mut e, mut f, mut g, mut hh) =
            (h[0], h[1], h[2], h[3], h[4], h[5], h[6], h[7]);
        for i in 0..64 {
            let s1 = e.rotate_right(6) ^ e.rotate_right(11) ^ e.rotate_right(25);
            let ch = (e & f) ^ ((!e) & g);
            let t1 = hh.wrapping_add(s1).wrapping_add(ch).wrapping_add(K[i]).wrapping_add(w[i]);
            let s0 = a.rotate_right(2) ^ a.rotate_right(13) ^ a.rotate_right(22);
            let maj = (a & b) ^ (a & c) ^ (b & c);
            let t2 = s0.wrapping_add(maj);
            hh = g;
            g = f;
            f = e;
            e = d.wrapping_add(t1);
            d = c;
            c = b;
            b = a;
            a = t1.wrapping_add(t2);
        }
        h[0] = h[0].wrapping_add(a);
        h[1] = h[1].wrapping_add(b);
        h[2] = h[2].wrapping_add(c);
        h[3] = h[3].wrapping_add(d);
        h[4] = h[4].wrapping_add(e);
        h[5] = h[5].wrapping_add(f);
        h[6] = h[6].wrapping_add(g);
        h[7] = h[7].wrapping_add(hh);
    }
    h.iter().map(|x| format!("{x:08x}")).collect()
}

/// Build the FilesToRead for a job: inline `files` (optionally in a given registration `order`) or `dir`.
fn build_files(job: &Value) -> Result<FilesToRead, Value> {
    let start = job["start"].as_str().unwrap_or("").to_string();
    if let Some(dir) = job["dir"].as_str() {
        let p = std::path::Path::new(dir).join(&start);
        return zeep_lib::utils::read_input_file_and_xsd_files_at_path(&p).map_err(|e| err_json(&e, &e));
    }
    let files = job["files"].as_object().cloned().unwrap_or_default();
    let order: Vec<String> = match job["order"].as_array() {
        Some(o) => o.iter().filter_map(|v| v.as_str().map(String::from)).collect(),
        None => {
            // default: start file first, the rest in name order (what a sorted directory walk would do)
            let mut v: Vec<String> = files.keys().cloned().collect();
            v.sort();
            if let Some(p) = v.iter().position(|n| *n == start) {
                let s = v.remove(p);
                v.insert(0, s);
            }
            v
        }
    };
    let mut it = order.iter();
    let Some(first) = it.next() else {
        // API misuse: empty file set; Files::new needs one file
        let f = Files::new("", "");
        return Ok(FilesToRead::new(start, f));
    };
    let mut fs = Files::new(first, files.get(first).and_then(|v| v.as_str()).unwrap_or(""));
    for n in it {
        fs.add(n, files.get(n).and_then(|v| v.as_str()).unwrap_or(""));
    }
    Ok(FilesToRead::new(start, fs))
}

/// One read_xml + write_xml(Vec) round on an existing FilesToRead.
fn one_call(ftr: &FilesToRead, job: &Value, call_idx: usize) -> Value {
    let r = catch_unwind(AssertUnwindSafe(|| XmlReader::read_xml(ftr)));
    let doc = match r {
        Err(_) => return json!({"outcome": "panic", "stage": "read", "panic": take_panic()}),
        Ok(Err(e)) => return json!({"outcome": "err", "stage": "read", "err": err_json(&e, &e)}),
        Ok(Ok(d)) => d,
    };
    let mut buf: Vec<u8> = Vec::new();
    let r = catch_unwind(AssertUnwindSafe(|| doc.write_xml(&mut buf)));
    match r {
        Err(_) => json!({"outcome": "panic", "stage": "write", "panic": take_panic()}),
        Ok(Err(e)) => json!({"outcome": "err", "stage": "write", "err": err_json(&e, &e)}),
        Ok(Ok(())) => {
            let mut out = json!({"outcome": "ok", "sha": sha256_hex(&buf), "len": buf.len()});
            if let Some(p) = job["bytes_path"].as_str() {
                let p = if call_idx == 0 { p.to_string() } else { format!("{p}.{call_idx}") };
                if let Err(e) = std::fs::write(&p, &buf) {
                    out["bytes_path_error"] = json!(e.to_string());
                }
            }
            if job["want_structs"].as_bool().unwrap_or(false) {
                match std::str::from_utf8(&buf).map_err(|e| e.to_string()).and_then(rsdump::struct_names) {
                    Ok(names) => out["structs"] = json!(names),
                    Err(e) => out["structs_error"] = json!(e),
                }
            }
            if job["want_text"].as_bool().unwrap_or(false) {
                out["text"] = json!(String::from_utf8_lossy(&buf));
            }
            out
        }
    }
}

fn run_gen(job: &Value) -> Value {
    let calls = job["calls"].as_u64().unwrap_or(1) as usize;
    let r = catch_unwind(AssertUnwindSafe(|| build_files(job)));
    let ftr = match r {
        Err(_) => return json!({"calls": [{"outcome": "panic", "stage": "files", "panic": take_panic()}]}),
        Ok(Err(e)) => return json!({"calls": [{"outcome": "err", "stage": "files", "err": e}]}),
        Ok(Ok(f)) => f,
    };
    let mut out = Vec::new();
    for i in 0..calls {
        out.push(one_call(&ftr, job, i));
    }
    json!({"calls": out})
}

const C11_URIS: [&str; 8] = [
    "http://zv.test/schemas/alpha", "http://zv.test/schemas/bravo", "http://zv.test/schemas/charlie",
    "http://zv.test/schemas/delta", "http://zv.test/schemas/echo", "http://zv.test/schemas/foxtrot",
    "http://zv.test/schemas/golf", "http://zv.test/schemas/hotel",
];
const C11_TAGS: [&str; 8] = ["Alpha", "Bravo", "Charlie", "Delta", "Echo", "Foxtrot", "Golf", "Hotel"];

/// Render file `i` of an import graph: edges given as adjacency bit mask (bit i*n+j = i imports j).
pub fn c11_render(n: usize, mask: u64, i: usize, dup: bool) -> String {
    c11_render_layout(n, mask, i, dup, 0)
}

/// `layout` varies what XSD allows around the imports (`(include | import | redefine | annotation)*` before the components):
/// 0 imports first, nothing else; 1 a schema-level annotation before the imports; 2 an annotation after the first import;
/// 3 a comment and a processing instruction between the imports; 4 imports written as non-empty elements that carry their own
/// annotation; 5 attribute order schemaLocation, namespace; 6 an annotation after every import.
pub fn c11_render_layout(n: usize, mask: u64, i: usize, dup: bool, layout: u64) -> String {
    let ident: Vec<usize> = (0..n).collect();
    c11_render_full(n, mask, i, dup, layout, &ident)
}

/// `ns_of[i]` = index of the namespace URI of file i: files may share one target namespace (a namespace spread over several
/// files that import each other by `namespace` + `schemaLocation`).
pub fn c11_render_full(n: usize, mask: u64, i: usize, dup: bool, layout: u64, ns_of: &[usize]) -> String {
    let uri = |k: usize| C11_URIS[ns_of.get(k).copied().unwrap_or(k) % C11_URIS.len()];
    let mut s = String::new();
    s.push_str(&format!(
        "<?xml version=\"1.0\"?>\n<xs:schema xmlns:xs=\"http://www.w3.org/2001/XMLSchema\" targetNamespace=\"{}\" elementFormDefault=\"qualified\" xmlns:own=\"{}\"",
        uri(i), uri(i)
    ));
    for j in 0..n {
        if mask >> (i * n + j) & 1 == 1 && j != i {
            s.push_str(&format!(" xmlns:p{j}=\"{}\"", uri(j)));
        }
    }
    s.push_str(">\n");
    let note = "  <xs:annotation><xs:documentation>schema level note</xs:documentation></xs:annotation>\n";
    if layout == 1 {
        s.push_str(note);
    }
    let mut written = 0;
    for j in 0..n {
        if mask >> (i * n + j) & 1 == 1 {
            let reps = if dup { 2 } else { 1 };
            for _ in 0..reps {
                match layout {
                    4 => s.push_str(&format!(
                        "  <xs:import namespace=\"{}\" schemaLocation=\"f{j}.xsd\">\n    <xs:annotation><xs:documentation>why</xs:documentation></xs:annotation>\n  </xs:import>\n",
                        uri(j)
                    )),
                    5 => s.push_str(&format!("  <xs:import schemaLocation=\"f{j}.xsd\" namespace=\"{}\"/>\n", uri(j))),
                    // the sibling spelt as a relative path
                    7 => s.push_str(&format!("  <xs:import namespace=\"{}\" schemaLocation=\"./f{j}.xsd\"/>\n", uri(j))),
                    8 => s.push_str(&format!("  <xs:import namespace=\"{}\" schemaLocation=\".//./f{j}.xsd\"/>\n", uri(j))),
                    _ => s.push_str(&format!("  <xs:import namespace=\"{}\" schemaLocation=\"f{j}.xsd\"/>\n", uri(j))),
                }
                written += 1;
                if (layout == 2 && written == 1) || layout == 6 {
                    s.push_str(note);
                }
                if layout == 3 {
                    s.push_str("  <!-- between imports -->\n  <?zv between?>\n");
                }
            }
        }
    }
    s.push_str(&format!(
        "  <xs:simpleType name=\"Code{}\"><xs:restriction base=\"xs:string\"><xs:maxLength value=\"8\"/></xs:restriction></xs:simpleType>\n",
        C11_TAGS[i]
    ));
    s.push_str(&format!("  <xs:complexType name=\"Rec{}\">\n    <xs:sequence>\n      <xs:element name=\"id\" type=\"xs:int\"/>\n", C11_TAGS[i]));
    s.push_str(&format!("      <xs:element name=\"own\" type=\"own:Code{}\" minOccurs=\"0\"/>\n", C11_TAGS[i]));
    for j in 0..n {
        if mask >> (i * n + j) & 1 == 1 && j != i {
            s.push_str(&format!(
                "      <xs:element name=\"via{}\" type=\"p{j}:Code{}\" minOccurs=\"0\"/>\n",
                C11_TAGS[j], C11_TAGS[j]
            ));
        }
    }
    s.push_str("    </xs:sequence>\n  </xs:complexType>\n</xs:schema>\n");
    s
}

fn run_c11(job: &Value) -> Value {
    let n = job["n"].as_u64().unwrap_or(3) as usize;
    let mask = job["mask"].as_u64().unwrap_or(0);
    let start = job["start_idx"].as_u64().unwrap_or(0) as usize;
    let dup = job["dup"].as_bool().unwrap_or(false);
    let mut files = serde_json::Map::new();
    let removed: Vec<u64> = job["remove"].as_array().map(|a| a.iter().filter_map(Value::as_u64).collect()).unwrap_or_default();
    for i in 0..n {
        if removed.contains(&(i as u64)) {
            continue;
        }
        let content = match job["replace"].get(i.to_string()).and_then(Value::as_str) {
            Some(c) => c.to_string(),
            None => {
                let ns_of: Vec<usize> = match job["ns_of"].as_array() {
                    Some(a) => a.iter().map(|v| v.as_u64().unwrap_or(0) as usize).collect(),
                    None => (0..n).collect(),
                };
                c11_render_full(n, mask, i, dup, job["layout"].as_u64().unwrap_or(0), &ns_of)
            }
        };
        files.insert(format!("f{i}.xsd"), json!(content));
    }
    if let Some(extra) = job["extra"].as_object() {
        for (k, v) in extra {
            files.insert(k.clone(), v.clone());
        }
    }
    let j2 = json!({"files": files, "start": format!("f{start}.xsd"), "want_structs": true});
    run_gen(&j2)
}

fn run_sinkscan(job: &Value) -> Value {
    let r = catch_unwind(AssertUnwindSafe(|| build_files(job)));
    let ftr = match r {
        Ok(Ok(f)) => f,
        _ => return json!({"status": "rejected", "stage": "files"}),
    };
    let doc = match catch_unwind(AssertUnwindSafe(|| XmlReader::read_xml(&ftr))) {
        Ok(Ok(d)) => d,
        Ok(Err(e)) => return json!({"status": "rejected", "stage": "read", "err": err_json(&e, &e)}),
        Err(_) => return json!({"status": "rejected", "stage": "read", "panic": take_panic()}),
    };
    // reference run
    let mut reference = CountingSink::default();
    match catch_unwind(AssertUnwindSafe(|| doc.write_xml(&mut reference))) {
        Ok(Ok(())) => {}
        Ok(Err(e)) => return json!({"status": "rejected", "stage": "write", "err": err_json(&e, &e)}),
        Err(_) => return json!({"status": "rejected", "stage": "write", "panic": take_panic()}),
    }
    let n = reference.calls;
    let max_all = job["max_all"].as_u64().unwrap_or(4000) as usize;
    let sample = job["sample"].as_u64().unwrap_or(1500) as usize;
    let mut seed = job["seed"].as_u64().unwrap_or(1) | 1;
    let mut ks: Vec<usize> = Vec::new();
    let exhaustive = n <= max_all;
    if exhaustive {
        ks.extend(0..n);
    } else {
        ks.extend(0..max_all / 2);
        ks.extend(n - max_all / 2..n);
        for _ in 0..sample {
            seed ^= seed << 13;
            seed ^= seed >> 7;
            seed ^= seed << 17;
            ks.push(max_all / 2 + (seed as usize) % (n - max_all));
        }
        ks.sort_unstable();
        ks.dedup();
    }
    let kinds = [
        ("Other", io::ErrorKind::Other),
        ("WriteZero", io::ErrorKind::WriteZero),
        ("BrokenPipe", io::ErrorKind::BrokenPipe),
        ("StorageFull", io::ErrorKind::StorageFull),
        // kinds that invite "try again" handling; only Interrupted may be retried (write_all does), and it is not an error then
        ("WouldBlock", io::ErrorKind::WouldBlock),
        ("TimedOut", io::ErrorKind::TimedOut),
        ("PermissionDenied", io::ErrorKind::PermissionDenied),
        // kinds that the library itself produces elsewhere for its inputs (a missing file, text that is not UTF-8): coming from
        // the sink they are failures of the sink all the same
        ("NotFound", io::ErrorKind::NotFound),
        ("InvalidData", io::ErrorKind::InvalidData),
        ("InvalidInput", io::ErrorKind::InvalidInput),
        ("UnexpectedEof", io::ErrorKind::UnexpectedEof),
        ("AlreadyExists", io::ErrorKind::AlreadyExists),
        ("ConnectionReset", io::ErrorKind::ConnectionReset),
        ("Unsupported", io::ErrorKind::Unsupported),
        ("OutOfMemory", io::ErrorKind::OutOfMemory),
    ];
    let mut anomalies: Vec<Value> = Vec::new();
    let mut injections = 0u64;
    let mut outcomes: BTreeMap<String, u64> = BTreeMap::new();
    let mut distinct_chunks: std::collections::BTreeSet<u64> = std::collections::BTreeSet::new();
    for &k in &ks {
        distinct_chunks.insert(reference.chunk_hashes[k]);
        for (mode_name, forever) in [("once", false), ("forever", true)] {
            // all kinds at a rotating subset to bound cost: every kind for k < 64, else one rotating kind
            let kind_list: Vec<(&str, io::ErrorKind)> =
                if k < 64 || exhaustive && n <= 1500 { kinds.to_vec() } else { vec![kinds[k % kinds.len()]] };
            for (kind_name, kind) in kind_list {
                injections += 1;
                let mut sink = FailingSink::new(k, forever, kind, false);
                let r = catch_unwind(AssertUnwindSafe(|| doc.write_xml(&mut sink)));
                let verdict = match &r {
                    Err(_) => "panic",
                    Ok(Ok(())) => "false-ok",
                    Ok(Err(e)) => {
                        if format!("{e:?}").starts_with("Io") {
                            "io-error"
                        } else {
                            "wrong-error"
                        }
                    }
                };
                *outcomes.entry(verdict.to_string()).or_default() += 1;
                if verdict != "io-error" {
                    let panic = if verdict == "panic" { take_panic() } else { Value::Null };
                    // second pass with a backtrace at the failing write call, to name the call site
                    let mut sink2 = FailingSink::new(k, forever, kind, true);
                    let _ = catch_unwind(AssertUnwindSafe(|| doc.write_xml(&mut sink2)));
                    if verdict == "panic" {
                        let _ = take_panic();
                    }
                    let site = sink2.site.clone();
                    if anomalies.len() < 200 {
                        anomalies.push(json!({"k": k, "mode": mode_name, "kind": kind_name, "verdict": verdict,
                            "site": site, "panic": panic,
                            "chunk": String::from_utf8_lossy(&reference.chunks_preview(k)).to_string(),
                            "err": match &r { Ok(Err(e)) => err_json(e, e), _ => Value::Null }}));
                    }
                }
            }
        }
    }
    // short-write family
    let mut short: Vec<Value> = Vec::new();
    for (name, mode) in [("one-byte", ShortMode::OneByte), ("random-prefix", ShortMode::Random(seed)),
        ("interrupted", ShortMode::Interrupted), ("random+interrupted", ShortMode::RandomInterrupted(seed ^ 0x9e37))] {
        let mut sink = ShortSink::new(mode);
        let r = catch_unwind(AssertUnwindSafe(|| doc.write_xml(&mut sink)));
        let verdict = match &r {
            Err(_) => {
                let _ = take_panic();
                "panic"
            }
            Ok(Err(_)) => "error",
            Ok(Ok(())) => {
                if sink.data == reference.data {
                    "identical"
                } else {
                    "differs"
                }
            }
        };
        short.push(json!({"pattern": name, "verdict": verdict, "calls": sink.calls, "bytes": sink.data.len()}));
    }
    // sinks that run full: room for the text up to (and a little into) write call k, for the k of the scan, and for every byte
    // count of the last 64; whatever does not fit must be reported (write_all turns the Ok(0) into WriteZero)
    let total = reference.data.len();
    let mut capacities: Vec<usize> = Vec::new();
    for &k in &ks {
        let a = reference.offsets[k];
        let b = reference.offsets.get(k + 1).copied().unwrap_or(total);
        capacities.push(a);
        if b - a > 1 {
            capacities.push(a + (b - a) / 2);
        }
    }
    capacities.extend(total.saturating_sub(64)..total);
    capacities.sort_unstable();
    capacities.dedup();
    let mut full: BTreeMap<String, u64> = BTreeMap::new();
    let mut full_anomalies: Vec<Value> = Vec::new();
    for &cap in capacities.iter().filter(|c| **c < total) {
        let mut sink = sinks::FullSink::new(cap);
        let r = catch_unwind(AssertUnwindSafe(|| doc.write_xml(&mut sink)));
        let verdict = match &r {
            Err(_) => {
                let _ = take_panic();
                "panic"
            }
            Ok(Ok(())) => "false-ok",
            Ok(Err(e)) => if format!("{e:?}").starts_with("Io") { "io-error" } else { "wrong-error" },
        };
        *full.entry(verdict.to_string()).or_default() += 1;
        if verdict != "io-error" && full_anomalies.len() < 50 {
            full_anomalies.push(json!({"capacity": cap, "missing_bytes": total - cap, "verdict": verdict, "written": sink.data.len(),
                "zero_writes": sink.zero_writes,
                "tail": String::from_utf8_lossy(&reference.data[cap.saturating_sub(60)..cap]).to_string()}));
        }
    }
    json!({"status": "scanned", "write_calls": n, "bytes": reference.data.len(), "ks": ks.len(), "exhaustive": exhaustive,
        "injections": injections, "outcomes": outcomes, "anomalies": anomalies, "short": short,
        "full": full, "full_anomalies": full_anomalies,
        "distinct_chunks": distinct_chunks.len()})
}

fn set_cpu_limit(budget_s: u64) {
    unsafe {
        let mut ru: libc::rusage = std::mem::zeroed();
        libc::getrusage(libc::RUSAGE_SELF, &mut ru);
        let used = (ru.ru_utime.tv_sec + ru.ru_stime.tv_sec) as u64 + 1;
        let lim = libc::rlimit { rlim_cur: used + budget_s, rlim_max: libc::RLIM_INFINITY };
        libc::setrlimit(libc::RLIMIT_CPU, &lim);
    }
}

fn run_job(job: &Value) -> Value {
    match job["op"].as_str().unwrap_or("gen") {
        "gen" => {
            let threads = job["threads"].as_u64().unwrap_or(0) as usize;
            if threads == 0 {
                run_gen(job)
            } else {
                let hs: Vec<_> = (0..threads)
                    .map(|_| {
                        let j = job.clone();
                        std::thread::Builder::new().stack_size(8 << 20).spawn(move || run_gen(&j)).unwrap()
                    })
                    .collect();
                let rs: Vec<Value> =
                    hs.into_iter().map(|h| h.join().unwrap_or(json!({"calls": [{"outcome": "thread-died"}]}))).collect();
                json!({"threads": rs})
            }
        }
        "c11graph" => run_c11(job),
        "sinkscan" => run_sinkscan(job),
        other => json!({"error": format!("unknown op {other}")}),
    }
}

fn worker() {
    install_hook();
    unsafe {
        // 6 GiB address space: allocation bombs abort this process only
        let lim = libc::rlimit { rlim_cur: 6 << 30, rlim_max: 6 << 30 };
        libc::setrlimit(libc::RLIMIT_AS, &lim);
    }
    let stdin = io::stdin();
    let stdout = io::stdout();
    for line in stdin.lock().lines() {
        let Ok(line) = line else { break };
        if line.trim().is_empty() {
            continue;
        }
        let job: Value = match serde_json::from_str(&line) {
            Ok(j) => j,
            Err(e) => {
                let mut o = stdout.lock();
                writeln!(o, "{}", json!({"bad_job": e.to_string()})).ok();
                o.flush().ok();
                continue;
            }
        };
        {
            let mut o = stdout.lock();
            writeln!(o, "{}", json!({"start": job["id"]})).ok();
            o.flush().ok();
        }
        set_cpu_limit(job["cpu_budget_s"].as_u64().unwrap_or(20));
        let stack = job["stack_mib"].as_u64().unwrap_or(8) as usize;
        let j = job.clone();
        let t0 = std::time::Instant::now();
        let h = std::thread::Builder::new().stack_size(stack << 20).spawn(move || run_job(&j)).unwrap();
        let mut res = h.join().unwrap_or(json!({"error": "job thread panicked outside catch_unwind"}));
        res["id"] = job["id"].clone();
        res["ms"] = json!(t0.elapsed().as_secs_f64() * 1000.0);
        let mut o = stdout.lock();
        writeln!(o, "{res}").ok();
        o.flush().ok();
    }
}

fn main() {
    let args: Vec<String> = std::env::args().collect();
    match args.get(1).map(String::as_str) {
        Some("worker") => worker(),
        Some("c11render") => {
            // debugging aid: print the files of one graph
            let n: usize = args[2].parse().unwrap();
            let mask: u64 = args[3].parse().unwrap();
            // optional: layout number, comma-separated namespace index per file
            let layout: u64 = args.get(4).and_then(|a| a.parse().ok()).unwrap_or(0);
            let ns_of: Vec<usize> = match args.get(5) {
                Some(a) if !a.is_empty() => a.split(',').filter_map(|x| x.parse().ok()).collect(),
                _ => (0..n).collect(),
            };
            for i in 0..n {
                println!("--- f{i}.xsd\n{}", c11_render_full(n, mask, i, false, layout, &ns_of));
            }
        }
        _ => {
            eprintln!("usage: zdrive worker < jobs.jsonl");
            std::process::exit(2);
        }
    }
}
