//! Instrumented `io::Write` sinks: the fault-injection boundary for C15.

use std::io::{self, Write};

fn fnv(data: &[u8]) -> u64 {
    let mut h: u64 = 0xcbf29ce484222325;
    for b in data {
        h ^= u64::from(*b);
        h = h.wrapping_mul(0x100000001b3);
    }
    h
}

/// Accepts everything, counts `write` calls and remembers chunk boundaries.
#[derive(Default)]
pub struct CountingSink {
    pub data: Vec<u8>,
    pub calls: usize,
    pub offsets: Vec<usize>,
    pub chunk_hashes: Vec<u64>,
}

impl CountingSink {
    pub fn chunks_preview(&self, k: usize) -> Vec<u8> {
        let a = self.offsets[k];
        let b = self.offsets.get(k + 1).copied().unwrap_or(self.data.len());
        self.data[a..b.min(a + 80)].to_vec()
    }
}

impl Write for CountingSink {
    fn write(&mut self, buf: &[u8]) -> io::Result<usize> {
        self.offsets.push(self.data.len());
        self.chunk_hashes.push(fnv(buf));
        self.calls += 1;
        self.data.extend_from_slice(buf);
        Ok(buf.len())
    }
    fn flush(&mut self) -> io::Result<()> {
        Ok(())
    }
}

/// Fails at write call `k` (once, or from then on forever) with the given kind.
pub struct FailingSink {
    k: usize,
    forever: bool,
    kind: io::ErrorKind,
    calls: usize,
    capture: bool,
    pub site: String,
    pub failed: usize,
}

impl FailingSink {
    pub fn new(k: usize, forever: bool, kind: io::ErrorKind, capture: bool) -> Self {
        FailingSink { k, forever, kind, calls: 0, capture, site: String::new(), failed: 0 }
    }
}

impl Write for FailingSink {
    fn write(&mut self, buf: &[u8]) -> io::Result<usize> {
        let i = self.calls;
        self.calls += 1;
        if i == self.k || (self.forever && i > self.k) {
            self.failed += 1;
            if self.capture && self.site.is_empty() {
                let bt = std::backtrace::Backtrace::force_capture().to_string();
                self.site = crate::first_repo_frame(&bt);
            }
            return Err(io::Error::new(self.kind, "injected sink failure"));
        }
        Ok(buf.len())
    }
    fn flush(&mut self) -> io::Result<()> {
        Ok(())
    }
}

#[derive(Clone, Copy)]
pub enum ShortMode {
    OneByte,
    Random(u64),
    Interrupted,
    RandomInterrupted(u64),
}

/// Accepts only a prefix of each buffer and/or reports `Interrupted` before accepting.
pub struct ShortSink {
    mode: ShortMode,
    state: u64,
    pub data: Vec<u8>,
    pub calls: usize,
    toggle: bool,
}

impl ShortSink {
    pub fn new(mode: ShortMode) -> Self {
        let state = match mode {
            ShortMode::Random(s) | ShortMode::RandomInterrupted(s) => s | 1,
            _ => 1,
        };
        ShortSink { mode, state, data: Vec::new(), calls: 0, toggle: false }
    }
    fn next(&mut self) -> u64 {
        self.state ^= self.state << 13;
        self.state ^= self.state >> 7;
        self.state ^= self.state << 17;
        self.state
    }
}

impl Write for ShortSink {
    fn write(&mut self, buf: &[u8]) -> io::Result<usize> {
        self.calls += 1;
        if buf.is_empty() {
            return Ok(0);
        }
        let interrupt = matches!(self.mode, ShortMode::Interrupted | ShortMode::RandomInterrupted(_));
        if interrupt {
            self.toggle = !self.toggle;
            if self.toggle {
                return Err(io::Error::new(io::ErrorKind::Interrupted, "injected EINTR"));
            }
        }
        let n = match self.mode {
            ShortMode::OneByte => 1,
            ShortMode::Interrupted => buf.len(),
            ShortMode::Random(_) | ShortMode::RandomInterrupted(_) => 1 + (self.next() as usize) % buf.len(),
        };
        self.data.extend_from_slice(&buf[..n]);
        Ok(n)
    }
    fn flush(&mut self) -> io::Result<()> {
        Ok(())
    }
}

/// A sink with room for `capacity` bytes, like `&mut [u8]` or a `Cursor` over one: it takes what still fits (a short write)
/// and from then on accepts nothing — `write` returns `Ok(0)`, not an error.
pub struct FullSink {
    capacity: usize,
    pub data: Vec<u8>,
    pub zero_writes: usize,
}

impl FullSink {
    pub fn new(capacity: usize) -> Self {
        FullSink { capacity, data: Vec::new(), zero_writes: 0 }
    }
}

impl Write for FullSink {
    fn write(&mut self, buf: &[u8]) -> io::Result<usize> {
        let room = self.capacity - self.data.len();
        let n = room.min(buf.len());
        if n == 0 && !buf.is_empty() {
            self.zero_writes += 1;
        }
        self.data.extend_from_slice(&buf[..n]);
        Ok(n)
    }
    fn flush(&mut self) -> io::Result<()> {
        Ok(())
    }
}
