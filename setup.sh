#!/bin/sh
# MANIFEST.setup_cmd: build the framework's tools offline from files on disk only.
set -e
cd "$(dirname "$0")"
export CARGO_NET_OFFLINE=true
mkdir -p work evidence replays
[ -f tools/Cargo.lock ] || cp /repo/Cargo.lock tools/Cargo.lock
(cd tools && cargo build -q --target-dir "$PWD/../work/target")
echo "setup ok"
