"""Engine G: generate schema sets → real zeep-lib (zdrive) → emitted.rs → rustc / rsdump / synthesized drivers → oracles.
One pipeline, many properties: every oracle appends *findings* (dicts) to the program; each property's check maps
the findings it is responsible for to its own signatures."""
import concurrent.futures as cf
import json
import os
import shutil
import subprocess

from . import common, gen, refmap, render, rustbuild
from .common import Verdict, Inconclusive, rng
from .model import BUILTINS


class Program:
    def __init__(self, idx, ss, root, label=""):
        self.idx = idx
        self.ss = ss
        self.label = label
        self.dir = os.path.join(root, f"p{idx}")
        os.makedirs(os.path.join(self.dir, "in"), exist_ok=True)
        self.files = render.render_set(ss)
        for n, t in self.files.items():
            with open(os.path.join(self.dir, "in", n), "w", encoding="utf-8") as f:
                f.write(t)
        self.emitted = os.path.join(self.dir, "emitted.rs")
        self.gen = None            # zdrive call result
        self.shape = None          # rsdump JSON
        self.compile = None        # (rc, diags)
        self.findings = []
        self.stats = {}
        self.expected = refmap.expected_structs(ss)
        self.by_comp = {id(e["comp"]): e for e in self.expected}
        self.located = {}
        self.inconclusive = None

    def finding(self, rule, **kw):
        kw["rule"] = rule
        self.findings.append(kw)

    def replay_files(self):
        out = {"in/" + n: t for n, t in self.files.items()}
        out["start.txt"] = self.ss.start
        out["features.txt"] = "\n".join(sorted(self.ss.features))
        try:
            out["emitted.rs"] = open(self.emitted, encoding="utf-8", errors="replace").read()
        except OSError:
            pass
        return out


# ------------------------------------------------------------------------------------------------ stages

def stage_generate(p, zdrive):
    w = common.ZWorker(zdrive)
    try:
        res = w.run({"id": p.idx, "op": "gen", "files": p.files, "start": p.ss.start, "bytes_path": p.emitted,
                     "cpu_budget_s": 30}, wall_timeout=120)
    finally:
        w.close()
    if res.get("watchdog"):
        p.inconclusive = "generator watchdog"
        return False
    if "died" in res:
        p.gen = {"outcome": "died", "how": common.classify_death(res)}
        p.finding("generator-died", how=p.gen["how"])
        return False
    p.gen = res["calls"][0]
    if p.gen["outcome"] == "panic":
        p.finding("generator-panic", panic=p.gen.get("panic"))
        return False
    if p.gen["outcome"] != "ok":
        p.finding("generator-rejected", variant=(p.gen.get("err") or {}).get("variant"), msg=(p.gen.get("err") or {}).get("msg"))
        return False
    return True


def stage_shape(p, rsdump):
    try:
        r = common.run([rsdump, "--census", p.emitted], timeout=120)
        p.shape = json.loads(r.stdout.decode())
    except Exception as e:   # noqa: BLE001
        p.inconclusive = f"rsdump failed: {e}"
        return False
    if not p.shape.get("ok"):
        p.finding("parse-error", error=p.shape.get("error"), line=p.shape.get("line"))
        return False
    p.located = refmap.locate_structs(p.shape, p.expected)
    heads = set(p.shape.get("path_heads", []))
    if heads & {"zeep", "zeep_lib"}:
        p.finding("depends-on-zeep", heads=sorted(heads & {"zeep", "zeep_lib"}))
    return True


def emitted_line(p, n):
    try:
        return open(p.emitted, encoding="utf-8", errors="replace").read().splitlines()[n - 1]
    except Exception:   # noqa: BLE001
        return ""


def classify_site(p, line_no):
    """Item class of an emitted line (vocabulary for C01 signatures)."""
    text = emitted_line(p, line_no).strip()
    lines = open(p.emitted, encoding="utf-8", errors="replace").read().splitlines()
    helper_start = next((i for i, l in enumerate(lines) if l.startswith("pub mod error {")), len(lines))
    if line_no - 1 >= helper_start:
        return "helper-text"
    if text.startswith("pub mod ") or text.startswith("use "):
        return "module-header"
    if text.startswith("pub async fn") or text.startswith("helpers::") or text.startswith("let "):
        return "method"
    if text.startswith("pub type"):
        return "alias"
    if text.startswith("pub struct") or text.startswith("impl "):
        return "item-header"
    if text.startswith("pub ") and ":" in text:
        return "field"
    if text.startswith("#["):
        return "attribute-line"
    if "check_restrictions" in text:
        return "restriction-delegate"
    if "Some(" in text or "to_string()" in text:
        return "restriction-constructor"
    return "other"


def stage_compile(p):
    host = os.path.join(p.dir, "host.rs")
    with open(host, "w") as f:
        f.write('#![allow(warnings)]\n#[path = "emitted.rs"]\npub mod g;\n')
    rc, diags = rustbuild.check_lib(host, p.dir)
    if rc is None:
        p.inconclusive = "rustc watchdog"
        return False
    p.compile = (rc, diags)
    if rc != 0:
        seen = set()
        diags = [d for d in diags if not d["message"].startswith("aborting due to")]
        for d in diags:
            if d["file"] and not d["file"].endswith("emitted.rs"):
                p.inconclusive = f"compile error outside emitted code: {d}"
                return False
            site = classify_site(p, d["line"]) if d["line"] else "?"
            key = (d["code"], site)
            if key in seen:
                continue
            seen.add(key)
            p.finding("compile-error", code=d["code"], site=site, message=d["message"][:200], line=d["line"],
                      text=emitted_line(p, d["line"]) if d["line"] else "")
        if not diags:
            p.finding("compile-error", code="?", site="?", message="rustc failed without a JSON diagnostic", line=None, text="")
        return False
    return True


def stage_static(p):
    """C02 static part: struct set per component and member name lists (order, visibility)."""
    compared = 0
    for e in p.expected:
        hits = p.located.get(id(e), [])
        if not hits:
            p.finding("struct-missing", kind=e["kind"], name=e["xml"], style=e["comp"].name.style,
                      keyword=e["comp"].name.has_keyword)
            continue
        if len(hits) > 1:
            p.finding("struct-duplicate", kind=e["kind"], name=e["xml"], modules=[h["module"] for h in hits])
            continue
        s = hits[0]
        if not s["pub"]:
            p.finding("struct-not-pub", kind=e["kind"], name=e["xml"])
        if e["members"] is None:
            continue
        compared += 1
        actual = s["fields"]
        exp = e["members"]
        an = [refmap.norm_ident(f["name"]) for f in actual]
        en = [m["snake"] for m in exp]
        e["shape_ok"] = an == en
        if an != en:
            missing = [m for m in exp if m["snake"] not in an]
            extra = [f for f in actual if refmap.norm_ident(f["name"]) not in en]
            for m in missing:
                p.finding("member-missing", struct=e["xml"], member=m["xml"], position=m["position"], kind=m["kind"],
                          inherited=m["inherited"], derived=getattr(e["comp"], "base", None) is not None,
                          style=m["name"].style, keyword=m["name"].has_keyword,
                          after_nested=_after_nested(e["comp"], m))
            for f in extra:
                p.finding("member-extra", struct=e["xml"], field=f["name"])
            if not missing and not extra:
                p.finding("member-order", struct=e["xml"], expected=en, actual=an,
                          derived=getattr(e["comp"], "base", None) is not None)
        for f in actual:
            if not f["pub"]:
                p.finding("member-not-pub", struct=e["xml"], field=f["name"])
    p.stats["structs_compared"] = compared
    p.stats["members_expected"] = sum(len(e["members"] or []) for e in p.expected)


def _after_nested(comp, m):
    """True when the member is declared after a nested sequence/choice group in its own content (signature aid)."""
    content = getattr(m["flat"]["owner"], "content", None)
    if content is None or content.group is None:
        return False
    seen_group = False
    from .model import Group
    for it in content.group.items:
        if isinstance(it, Group):
            if any(x is m["flat"]["item"] for x in it.items):
                return False
            seen_group = seen_group or it.kind == "sequence"
        elif it is m["flat"]["item"]:
            return seen_group
    return False


def stage_probe(p):
    """C02 typed probe: rustc decides whether each member has exactly the expected type."""
    lines = ['#![allow(warnings)]', '#[path = "emitted.rs"]', 'pub mod g;', 'fn is<T>(v: T) -> T { v }']
    line_map = {}
    n_members = 0
    skipped = 0
    k = 0
    for e in p.expected:
        if e["members"] is None or not e.get("shape_ok"):
            continue
        s = p.located[id(e)][0]
        lines.append(f"fn probe_{k}() {{ let _ = {refmap.rust_path(s)} {{")
        k += 1
        for f, m in zip(s["fields"], e["members"]):
            ty = refmap.type_expr(m, p.located, p.by_comp)
            if ty is None:
                skipped += 1
                lines.append(f"    {f['name']}: Default::default(),")
                continue
            lines.append(f"    {f['name']}: is::<{ty}>(Default::default()),")
            line_map[len(lines)] = (e, m, f, ty)
            n_members += 1
        lines.append("}; }")
    p.stats["members_probed"] = n_members
    p.stats["members_skipped_target_missing"] = skipped
    if n_members == 0:
        return
    src = os.path.join(p.dir, "probe.rs")
    with open(src, "w") as fh:
        fh.write("\n".join(lines) + "\n")
    rc, diags = rustbuild.check_lib(src, p.dir, "probe")
    if rc is None:
        p.inconclusive = "rustc watchdog (probe)"
        return
    if rc == 0:
        return
    names = {s["name"] for s in p.shape["structs"]}
    for d in diags:
        if d["file"] and d["file"].endswith("probe.rs") and d["line"] in line_map:
            e, m, f, ty = line_map[d["line"]]
            wa, ca = refmap.abstract_type(f["type"], names)
            kind, t = m["target"]
            p.finding("member-type", struct=e["xml"], member=m["xml"], position=m["position"], kind=m["kind"],
                      occurs=refmap.occurs_desc(m), builtin=t if kind == "builtin" else "user-type",
                      expected=f"{m['wrapper'] or 'T'}<{BUILTINS[t] if kind == 'builtin' else 'T'}>",
                      actual=f"{wa or 'T'}<{ca}>", code=d["code"], expected_src=ty, actual_src=f["type"],
                      inherited=m["inherited"], derived=getattr(e["comp"], "base", None) is not None,
                      target_file=(t.file if kind == "struct" else None), decl_file=m["decl_file"],
                      wrong_struct=(kind == "struct" and ca == "T" and wa == (m["wrapper"] or "")))
        elif d["file"] and d["file"].endswith("emitted.rs"):
            continue     # C01's business; the probe compile repeats it
        else:
            p.inconclusive = f"probe: unexpected diagnostic {d['code']} {d['message'][:120]} at {d['file']}:{d['line']}"


# ------------------------------------------------------------------------------------------------ orchestration

def run_programs(programs, stages, nworkers=16):
    zdrive = common.build_tool("zdrive")
    rsdump = common.build_tool("rsdump")
    rustbuild.host()

    def one(p):
        try:
            if not stage_generate(p, zdrive):
                return p
            if not stage_shape(p, rsdump):
                return p
            compiled = stage_compile(p)
            if "static" in stages:
                stage_static(p)
            if compiled and "probe" in stages:
                stage_probe(p)
            for st in stages:
                if callable(st) and compiled:
                    st(p)
        except Exception as e:   # noqa: BLE001
            import traceback
            p.inconclusive = "harness error: " + "".join(traceback.format_exception_only(type(e), e)).strip() + " | " + traceback.format_exc()[-600:]
        return p

    with cf.ThreadPoolExecutor(max_workers=nworkers) as ex:
        return list(ex.map(one, programs))


def make_programs(prop, profile_cfgs, n, root, label=""):
    """n programs, cycling through the given profile configs, each from its own seed sub-stream."""
    progs = []
    for i in range(n):
        name, cfg = profile_cfgs[i % len(profile_cfgs)]
        r = rng(prop, name, i)
        ss = gen.generate(r, cfg)
        progs.append(Program(i, ss, root, f"{name}#{i}"))
    return progs


def fingerprint(ss):
    """Structural fingerprint of a schema set with all names abstracted away."""
    import hashlib
    from .model import Group
    parts = []

    def tref(t):
        if t is None:
            return "-"
        return ("b:" + t.name) if t.builtin else f"{t.comp.kind}@{t.file}"

    def grp(g):
        if g is None:
            return "-"
        return f"{g.kind}[{g.min},{g.max}](" + ",".join(
            grp(it) if isinstance(it, Group) else (f"ref{it.min},{it.max}:{tref(it.ref)}" if it.kind == "ref" else f"el{it.min},{it.max}:{tref(it.type)}")
            for it in g.items) + ")"

    for f in ss.files:
        parts.append(f"F{f.idx}:imports={sorted(f.imports)}")
        for c in f.components:
            if c.kind == "simple":
                parts.append(f"S:{tref(c.base)}:{[k for k, _ in c.facets.items()]}:{len(c.facets.enumeration or [])}")
            else:
                content = c.content
                parts.append(f"{c.kind}:{tref(getattr(c, 'base', None))}:{tref(getattr(c, 'type', None))}:"
                             f"{grp(content.group) if content else '-'}:"
                             f"{[(tref(a.type), a.required) for a in (content.attrs if content else [])]}")
    if ss.wsdl:
        for op in ss.wsdl.operations:
            parts.append(f"op:{len(op.input.parts)}:{len(op.in_headers)}:{op.output is not None}:{len(op.out_headers)}:{op.in_parts_attr}")
    return hashlib.sha1("|".join(parts).encode()).hexdigest()[:16]


# ------------------------------------------------------------------------------------------------ property checks

QUARANTINE = {}     # filled from known_findings.json (feature names to avoid in ordinary programs)


def _quarantine(prop_list):
    feats = set()
    try:
        data = json.load(open(common.KNOWN))
    except FileNotFoundError:
        return feats
    for e in data.get("findings", []):
        if e.get("status") == "open" and e.get("quarantine"):
            feats |= set(e["quarantine"])
    return feats


def sig_c01(f):
    if f["rule"] == "compile-error":
        return f"C01|rustc|code={f['code']}|site={f['site']}"
    if f["rule"] == "parse-error":
        return "C01|parse"
    if f["rule"] == "depends-on-zeep":
        return "C01|depends-on-zeep"
    return None


def sig_c02(f):
    r = f["rule"]
    if r == "struct-missing":
        return f"C02|struct-missing|kind={f['kind']}"
    if r == "struct-duplicate":
        return f"C02|struct-duplicate|kind={f['kind']}"
    if r in ("struct-not-pub", "member-not-pub"):
        return f"C02|{r}"
    if r == "member-missing":
        return (f"C02|member-missing|position={f['position']}|kind={f['kind']}|inherited={min(f['inherited'], 1)}"
                f"|after-nested-sequence={f['after_nested']}")
    if r == "member-extra":
        return "C02|member-extra"
    if r == "member-order":
        return "C02|member-order"
    if r == "member-type":
        ew, ec = f["expected"].split("<")[0], f["expected"].split("<")[1].rstrip(">")
        aw, ac = f["actual"].split("<")[0], f["actual"].split("<")[1].rstrip(">")
        if ec == ac:
            carrier = "same"
        elif f["wrong_struct"]:
            carrier = "other-struct"
        else:
            carrier = f"builtin={f['builtin']},expected={ec},actual={ac}"
        return f"C02|member-type|position={f['position']}|{f['occurs']}|expected-wrapper={ew}|actual-wrapper={aw}|carrier={carrier}"
    return None


def check_generic(prop, tier, cfgs, n_quick, n_thorough, sigfun, stages, level="exploration", rule="", nontrivial=None,
                  extra_cov=None, min_eval=8):
    v = Verdict(prop, tier, level)
    n = n_quick if tier == "quick" else n_thorough
    root = common.scratch(prop.lower())
    try:
        progs = make_programs(prop, cfgs, n, root)
        progs = run_programs(progs, stages)
        evaluated, accepted, compiled = 0, 0, 0
        fps = set()
        incon = []
        feature_counts = {}
        rule_counts = {}
        stats = {}
        samples = []
        for p in progs:
            if p.inconclusive:
                incon.append((p.label, p.inconclusive))
                continue
            evaluated += 1
            if p.gen and p.gen.get("outcome") == "ok":
                accepted += 1
            if p.compile and p.compile[0] == 0:
                compiled += 1
            if nontrivial is None or nontrivial(p):
                fps.add(fingerprint(p.ss))
            for ft in p.ss.features:
                feature_counts[ft] = feature_counts.get(ft, 0) + 1
            for k, x in p.stats.items():
                stats[k] = stats.get(k, 0) + x
            for f in p.findings:
                rule_counts[f["rule"]] = rule_counts.get(f["rule"], 0) + 1
                sig = sigfun(f)
                if sig:
                    detail = {k: x for k, x in f.items() if k not in ("flat",)}
                    detail["program"] = p.label
                    detail["features"] = sorted(p.ss.features)
                    if sig not in v.records:
                        v.violation(sig, detail, p.replay_files())
                    else:
                        v.violation(sig, detail)
            if len(samples) < 3:
                samples.append({"program": p.label, "features": sorted(p.ss.features),
                                "files": {k: (t if len(t) < 1500 else t[:1500] + "…") for k, t in p.files.items()}})
        cov = {
            "evaluations": evaluated, "distinct_nontrivial": len(fps), "rule": rule,
            "programs_generated": len(progs), "generator_accepted": accepted, "compiled": compiled,
            "inconclusive_programs": len(incon), "inconclusive_reasons": sorted(set(r[:160] for _, r in incon))[:5],
            "model_features_seen": feature_counts, "finding_rules_seen": rule_counts, "samples": samples,
        }
        cov.update(stats)
        if extra_cov:
            cov.update(extra_cov(progs))
        if len(incon) > len(progs) * 0.1:
            v.inconclusive = f"{len(incon)} of {len(progs)} programs inconclusive: {incon[0][1][:300]}"
        elif accepted < evaluated * 0.5:
            v.inconclusive = f"generator accepted only {accepted} of {evaluated} in-subset programs"
        v.finish(cov, assumptions=[
            "schema sets come from vf/gen.py (DESIGN §2 grammar), rendered by vf/render.py; expectations from vf/refmap.py",
            "rustc (stable, edition 2024) with --extern limited to yaserde, yaserde_derive, xml-rs, log, reqwest, tokio built from /repo/Cargo.lock",
        ], min_evaluations=min_eval)
    finally:
        shutil.rmtree(root, ignore_errors=True)


def core_cfgs(q):
    return [
        ("core", gen.cfg_with(files=(1, 3), quarantine=q)),
        ("core-many-files", gen.cfg_with(files=(3, 4), quarantine=q, complex_per_file=(1, 3))),
        ("core-keywords", gen.cfg_with(files=(1, 2), keyword_rate=0.35, quarantine=q)),
        ("wsdl", gen.cfg_with(files=(1, 3), wsdl=True, quarantine=q, complex_per_file=(0, 2), simple_per_file=(0, 2))),
    ]


def all_cfgs(q):
    return core_cfgs(q)


def run(prop, tier):
    q = _quarantine([prop])
    if prop == "C01":
        check_generic("C01", tier, core_cfgs(q), 48, 2000, sig_c01, [], rule=(
            "random schema sets over the DESIGN §2 grammar (profiles core, core-many-files, core-keywords, wsdl; one program per "
            "seed sub-stream), generated by the real zeep-lib, emitted file compiled with rustc --emit=metadata against the six "
            "documented crates only. Non-trivial = every program (all contain >= 1 component); distinct = structural fingerprint of "
            "the schema set with names abstracted away"))
    elif prop == "C02":
        check_generic("C02", tier, core_cfgs(q)[:3], 40, 1500, sig_c02, ["static", "probe"], rule=(
            "same generator as C01 (XSD profiles); oracle (a) static: emitted struct set and member name lists (syn) vs. the reference "
            "mapping; (b) typed probe: one struct literal per expected struct, each member initialised through is::<ExpectedType>(..), "
            "compiled with rustc — E0308 on a member's line is a type deviation. Non-trivial = programs with >= 1 struct compared"),
            nontrivial=lambda p: p.stats.get("structs_compared", 0) > 0)
    else:
        raise Inconclusive(f"no check registered for {prop}")
