"""Engine G: generate schema sets → real zeep-lib (zdrive) → emitted.rs → rustc / rsdump / synthesized drivers → oracles.
One pipeline, many properties: every oracle appends *findings* (dicts) to the program; each property's check maps
the findings it is responsible for to its own signatures."""
import concurrent.futures as cf
import json
import os
import shutil
import subprocess

from . import common, gen, refmap, render, rustbuild
from .common import Verdict, Inconclusive, rng
from .model import BUILTINS


class Program:
    def __init__(self, idx, ss, root, label=""):
        self.idx = idx
        self.ss = ss
        self.label = label
        self.dir = os.path.join(root, f"p{idx}")
        os.makedirs(os.path.join(self.dir, "in"), exist_ok=True)
        self.files = render.render_set(ss)
        for n, t in self.files.items():
            with open(os.path.join(self.dir, "in", n), "w", encoding="utf-8") as f:
                f.write(t)
        self.emitted = os.path.join(self.dir, "emitted.rs")
        self.gen = None            # zdrive call result
        self.shape = None          # rsdump JSON
        self.compile = None        # (rc, diags)
        self.findings = []
        self.stats = {}
        self.excl = {}
        self.expected = refmap.expected_structs(ss)
        self.by_comp = {id(e["comp"]): e for e in self.expected}
        self.located = {}
        self.inconclusive = None

    def finding(self, rule, **kw):
        kw["rule"] = rule
        self.findings.append(kw)

    def replay_files(self):
        out = {"in/" + n: t for n, t in self.files.items()}
        out["start.txt"] = self.ss.start
        out["features.txt"] = "\n".join(sorted(self.ss.features))
        try:
            out["emitted.rs"] = open(self.emitted, encoding="utf-8", errors="replace").read()
        except OSError:
            pass
        return out


# ------------------------------------------------------------------------------------------------ stages

def stage_generate(p, zdrive):
    w = common.ZWorker(zdrive)
    try:
        res = w.run({"id": p.idx, "op": "gen", "files": p.files, "start": p.ss.start, "bytes_path": p.emitted,
                     "cpu_budget_s": 30}, wall_timeout=120)
    finally:
        w.close()
    if res.get("watchdog"):
        p.inconclusive = "generator watchdog"
        return False
    if "died" in res:
        p.gen = {"outcome": "died", "how": common.classify_death(res)}
        p.finding("generator-died", how=p.gen["how"])
        return False
    p.gen = res["calls"][0]
    if p.gen["outcome"] == "panic":
        p.finding("generator-panic", panic=p.gen.get("panic"))
        return False
    if p.gen["outcome"] != "ok":
        p.finding("generator-rejected", variant=(p.gen.get("err") or {}).get("variant"), msg=(p.gen.get("err") or {}).get("msg"))
        return False
    return True


def stage_shape(p, rsdump):
    try:
        r = common.run([rsdump, "--census", p.emitted], timeout=120)
        p.shape = json.loads(r.stdout.decode())
    except Exception as e:   # noqa: BLE001
        p.inconclusive = f"rsdump failed: {e}"
        return False
    if not p.shape.get("ok"):
        p.finding("parse-error", error=p.shape.get("error"), line=p.shape.get("line"))
        return False
    p.located = refmap.locate_structs(p.shape, p.expected)
    heads = set(p.shape.get("path_heads", []))
    if heads & {"zeep", "zeep_lib"}:
        p.finding("depends-on-zeep", heads=sorted(heads & {"zeep", "zeep_lib"}))
    return True


def emitted_line(p, n):
    try:
        return open(p.emitted, encoding="utf-8", errors="replace").read().splitlines()[n - 1]
    except Exception:   # noqa: BLE001
        return ""


def classify_site(p, line_no):
    """Item class of an emitted line (vocabulary for C01 signatures)."""
    text = emitted_line(p, line_no).strip()
    lines = open(p.emitted, encoding="utf-8", errors="replace").read().splitlines()
    helper_start = next((i for i, l in enumerate(lines) if l.startswith("pub mod error {")), len(lines))
    if line_no - 1 >= helper_start:
        return "helper-text"
    if text.startswith("pub mod ") or text.startswith("use "):
        return "module-header"
    if text.startswith("pub async fn") or text.startswith("helpers::") or text.startswith("let "):
        return "method"
    if text.startswith("pub type"):
        return "alias"
    if text.startswith("pub struct") or text.startswith("impl "):
        return "item-header"
    if text.startswith("pub ") and ":" in text:
        return "field"
    if text.startswith("#["):
        return "attribute-line"
    if "check_restrictions" in text:
        return "restriction-delegate"
    if "Some(" in text or "to_string()" in text:
        return "restriction-constructor"
    return "other"


def in_operation_code(p, line_no):
    """True when the emitted line is outside every schema module and in front of the helper text: what a WSDL adds to the
    file (envelope types, free functions, the service struct and its methods)."""
    lines = open(p.emitted, encoding="utf-8", errors="replace").read().splitlines()
    helper_start = next((i for i, l in enumerate(lines) if l.startswith("pub mod error {")), len(lines))
    if line_no - 1 >= helper_start:
        return False
    inside = False
    for l in lines[: line_no - 1]:
        if l.startswith("pub mod ") and l.rstrip().endswith("{"):
            inside = True
        elif l.startswith("}"):
            inside = False
    return not inside


def stage_compile(p):
    host = os.path.join(p.dir, "host.rs")
    with open(host, "w") as f:
        f.write('#![allow(warnings)]\n#[path = "emitted.rs"]\npub mod g;\n')
    rc, diags = rustbuild.check_lib(host, p.dir)
    if rc is None:
        p.inconclusive = "rustc watchdog"
        return False
    p.compile = (rc, diags)
    if rc != 0:
        seen = set()
        diags = [d for d in diags if not d["message"].startswith("aborting due to")]
        for d in diags:
            if d["file"] and not d["file"].endswith("emitted.rs"):
                p.inconclusive = f"compile error outside emitted code: {d}"
                return False
            site = classify_site(p, d["line"]) if d["line"] else "?"
            key = (d["code"], site)
            if key in seen:
                continue
            seen.add(key)
            p.finding("compile-error", code=d["code"], site=site, message=d["message"][:200], line=d["line"],
                      text=emitted_line(p, d["line"]) if d["line"] else "",
                      operation_code=bool(d["line"]) and p.ss.wsdl is not None and in_operation_code(p, d["line"]))
        if not diags:
            p.finding("compile-error", code="?", site="?", message="rustc failed without a JSON diagnostic", line=None, text="")
        return False
    return True


def stage_static(p):
    """C02 static part: struct set per component and member name lists (order, visibility)."""
    compared = 0
    for e in p.expected:
        hits = p.located.get(id(e), [])
        if not hits:
            p.finding("struct-missing", kind=e["kind"], name=e["xml"], style=e["comp"].name.style,
                      keyword=e["comp"].name.has_keyword)
            continue
        if len(hits) > 1:
            p.finding("struct-duplicate", kind=e["kind"], name=e["xml"], modules=[h["module"] for h in hits])
            continue
        s = hits[0]
        if not s["pub"]:
            p.finding("struct-not-pub", kind=e["kind"], name=e["xml"])
        if e["members"] is None:
            continue
        compared += 1
        actual = s["fields"]
        exp = e["members"]
        an = [refmap.norm_ident(f["name"]) for f in actual]
        en = [m["snake"] for m in exp]
        agree = _names_agree(an, en)
        e["shape_ok"] = agree
        e["names_ok"] = (agree or sorted(an) == sorted(en)) and len(set(an)) == len(an)
        if not agree:
            missing = [m for m in exp if m["snake"] not in an]
            extra = [f for f in actual if refmap.norm_ident(f["name"]) not in en]
            for m in missing:
                p.finding("member-missing", struct=e["xml"], member=m["xml"], position=m["position"], kind=m["kind"],
                          inherited=m["inherited"], derived=getattr(e["comp"], "base", None) is not None,
                          style=m["name"].style, keyword=m["name"].has_keyword,
                          after_nested=_after_nested(e["comp"], m))
            for f in extra:
                p.finding("member-extra", struct=e["xml"], field=f["name"])
            if not missing and not extra:
                p.finding("member-order", struct=e["xml"], expected=en, actual=an,
                          derived=getattr(e["comp"], "base", None) is not None)
        for f in actual:
            if not f["pub"]:
                p.finding("member-not-pub", struct=e["xml"], field=f["name"])
    p.stats["structs_compared"] = compared
    p.stats["members_expected"] = sum(len(e["members"] or []) for e in p.expected)


def _names_agree(an, en):
    """Field names against expected member names, position by position. Two members of one type may have the same name (elements
    of two namespaces, an attribute and an element): the first one is expected under that name, for a later one any field name
    of its own will do — what it is called is nobody's promise, that all of them are there is."""
    if len(an) != len(en) or len(set(an)) != len(an):
        return False
    seen = set()
    for a, x in zip(an, en):
        if x not in seen and a != x:
            return False
        seen.add(x)
    return True


def _after_nested(comp, m):
    """True when the member is declared after a nested sequence/choice group in its own content (signature aid)."""
    content = getattr(m["flat"]["owner"], "content", None)
    if content is None or content.group is None:
        return False
    seen_group = False
    from .model import Group
    for it in content.group.items:
        if isinstance(it, Group):
            if any(x is m["flat"]["item"] for x in it.items):
                return False
            seen_group = seen_group or it.kind == "sequence"
        elif it is m["flat"]["item"]:
            return seen_group
    return False


def stage_probe(p):
    """C02 typed probe: rustc decides whether each member has exactly the expected type."""
    lines = ['#![allow(warnings)]', '#[path = "emitted.rs"]', 'pub mod g;', 'fn is<T>(v: T) -> T { v }']
    line_map = {}
    n_members = 0
    skipped = 0
    k = 0
    for e in p.expected:
        if e["members"] is None or not e.get("shape_ok"):
            continue
        s = p.located[id(e)][0]
        lines.append(f"fn probe_{k}() {{ let _ = {refmap.rust_path(s)} {{")
        k += 1
        for f, m in zip(s["fields"], e["members"]):
            ty = refmap.type_expr(m, p.located, p.by_comp, e["comp"])
            if ty is None:
                skipped += 1
                lines.append(f"    {f['name']}: Default::default(),")
                continue
            lines.append(f"    {f['name']}: is::<{ty}>(Default::default()),")
            line_map[len(lines)] = (e, m, f, ty)
            n_members += 1
        lines.append("}; }")
    p.stats["members_probed"] = n_members
    p.stats["members_skipped_target_missing"] = skipped
    if n_members == 0:
        return
    src = os.path.join(p.dir, "probe.rs")
    with open(src, "w") as fh:
        fh.write("\n".join(lines) + "\n")
    rc, diags = rustbuild.check_lib(src, p.dir, "probe")
    if rc is None:
        p.inconclusive = "rustc watchdog (probe)"
        return
    if rc == 0:
        return
    names = {s["name"] for s in p.shape["structs"]}
    for d in diags:
        if d["file"] and d["file"].endswith("probe.rs") and d["line"] in line_map:
            e, m, f, ty = line_map[d["line"]]
            wa, ca = refmap.abstract_type(f["type"], names)
            kind, t = m["target"]
            p.finding("member-type", struct=e["xml"], member=m["xml"], position=m["position"], kind=m["kind"],
                      occurs=refmap.occurs_desc(m), builtin=t if kind == "builtin" else "user-type",
                      expected=f"{m['wrapper'] or 'T'}<{BUILTINS[t] if kind == 'builtin' else 'T'}>",
                      actual=f"{wa or 'T'}<{ca}>", code=d["code"], expected_src=ty, actual_src=f["type"],
                      inherited=m["inherited"], derived=getattr(e["comp"], "base", None) is not None,
                      target_file=(t.file if kind == "struct" else None), decl_file=m["decl_file"],
                      wrong_struct=(kind == "struct" and ca == "T" and wa == (m["wrapper"] or "")))
        elif d["file"] and d["file"].endswith("emitted.rs"):
            continue     # C01's business; the probe compile repeats it
        else:
            p.inconclusive = f"probe: unexpected diagnostic {d['code']} {d['message'][:120]} at {d['file']}:{d['line']}"


# ------------------------------------------------------------------------------------------------ orchestration

def run_programs(programs, stages, nworkers=16):
    zdrive = common.build_tool("zdrive")
    rsdump = common.build_tool("rsdump")
    rustbuild.host()

    def one(p):
        try:
            if not stage_generate(p, zdrive):
                return p
            if not stage_shape(p, rsdump):
                return p
            compiled = stage_compile(p)
            if "static" in stages:
                stage_static(p)
            if compiled and "probe" in stages:
                stage_probe(p)
            for st in stages:
                if callable(st) and compiled:
                    st(p)
                elif callable(st) and getattr(st, "static_part", None) is not None and p.shape and p.shape.get("ok"):
                    st.static_part(p)
        except Exception as e:   # noqa: BLE001
            import traceback
            p.inconclusive = "harness error: " + "".join(traceback.format_exception_only(type(e), e)).strip() + " | " + traceback.format_exc()[-600:]
        return p

    with cf.ThreadPoolExecutor(max_workers=nworkers) as ex:
        return list(ex.map(one, programs))


def make_programs(prop, profile_cfgs, n, root, label=""):
    """n programs, cycling through the given profile configs, each from its own seed sub-stream."""
    progs = []
    for i in range(n):
        name, cfg = profile_cfgs[i % len(profile_cfgs)]
        r = rng(prop, name, i)
        ss = gen.generate(r, cfg)
        port = None
        if ss.wsdl is not None:
            from .wsdl_driver import free_port
            port = free_port()
            tail = [f"/soap/{name}/{i}", f"/soap/{name}/{i}?wsdl=1&mode=a%20b", f"/soap/{name}/{i}/", "", f"/SOAP/{name}.svc;v=1/{i}"][i % 5]
            ss.wsdl.location = f"http://127.0.0.1:{port}{tail}"
        p = Program(i, ss, root, f"{name}#{i}")
        p.port = port
        progs.append(p)
    return progs


def fingerprint(ss):
    """Structural fingerprint of a schema set with all names abstracted away."""
    import hashlib
    from .model import Group
    parts = []

    def tref(t):
        if t is None:
            return "-"
        return ("b:" + t.name) if t.builtin else f"{t.comp.kind}@{t.file}"

    def grp(g):
        if g is None:
            return "-"
        return f"{g.kind}[{g.min},{g.max}](" + ",".join(
            grp(it) if isinstance(it, Group) else (f"ref{it.min},{it.max}:{tref(it.ref)}" if it.kind == "ref" else f"el{it.min},{it.max}:{tref(it.type)}")
            for it in g.items) + ")"

    for f in ss.files:
        parts.append(f"F{f.idx}:imports={sorted(f.imports)}")
        for c in f.components:
            if c.kind == "simple":
                parts.append(f"S:{tref(c.base)}:{[k for k, _ in c.facets.items()]}:{len(c.facets.enumeration or [])}")
            else:
                content = c.content
                parts.append(f"{c.kind}:{tref(getattr(c, 'base', None))}:{tref(getattr(c, 'type', None))}:"
                             f"{grp(content.group) if content else '-'}:"
                             f"{[(tref(a.type), a.required) for a in (content.attrs if content else [])]}")
    if ss.wsdl:
        for op in ss.wsdl.operations:
            parts.append(f"op:{len(op.input.parts)}:{len(op.in_headers)}:{op.output is not None}:{len(op.out_headers)}:{op.in_parts_attr}")
    return hashlib.sha1("|".join(parts).encode()).hexdigest()[:16]


# ------------------------------------------------------------------------------------------------ property checks

QUARANTINE = {}     # filled from known_findings.json (feature names to avoid in ordinary programs)


def _quarantine(prop_list):
    feats = set()
    try:
        data = json.load(open(common.KNOWN))
    except FileNotFoundError:
        return feats
    for e in data.get("findings", []):
        if e.get("status") == "open" and e.get("quarantine"):
            feats |= set(e["quarantine"])
    return feats


def sig_c01(f):
    if f["rule"] == "compile-error":
        return f"C01|rustc|code={f['code']}|site={f['site']}"
    if f["rule"] == "parse-error":
        return "C01|parse"
    if f["rule"] == "depends-on-zeep":
        return "C01|depends-on-zeep"
    return None


def sig_c02(f):
    r = f["rule"]
    if r == "generator-rejected":
        # an input of the supported subset that is refused has none of the things this property promises for it
        return f"C02|rejected|variant={f.get('variant')}"
    if r == "struct-missing":
        return f"C02|struct-missing|kind={f['kind']}"
    if r == "struct-duplicate":
        return f"C02|struct-duplicate|kind={f['kind']}"
    if r in ("struct-not-pub", "member-not-pub"):
        return f"C02|{r}"
    if r == "member-missing":
        return (f"C02|member-missing|position={f['position']}|kind={f['kind']}|inherited={min(f['inherited'], 1)}"
                f"|after-nested-sequence={f['after_nested']}")
    if r == "member-extra":
        return "C02|member-extra"
    if r == "member-order":
        return "C02|member-order"
    if r == "member-type":
        ew, ec = f["expected"].split("<")[0], f["expected"].split("<")[1].rstrip(">")
        aw, ac = f["actual"].split("<")[0], f["actual"].split("<")[1].rstrip(">")
        if ec == ac:
            carrier = "same"
        elif f["wrong_struct"]:
            carrier = "other-struct"
        else:
            carrier = f"builtin={f['builtin']},expected={ec},actual={ac}"
        return f"C02|member-type|position={f['position']}|{f['occurs']}|expected-wrapper={ew}|actual-wrapper={aw}|carrier={carrier}"
    return None


def check_generic(prop, tier, cfgs, n_quick, n_thorough, sigfun, stages, level="exploration", rule="", nontrivial=None,
                  extra_cov=None, min_eval=8, cell_prefix=None, eval_key=None):
    v = Verdict(prop, tier, level)
    n = n_quick if tier == "quick" else n_thorough
    root = common.scratch(prop.lower())
    try:
        progs = make_programs(prop, cfgs, n, root)
        # mini programs that re-confirm this property's quarantined open findings
        from . import gen_mini
        for e in v.known:
            if e.get("status") == "open" and e.get("mini") in gen_mini.MINIS:
                ss = gen_mini.MINIS[e["mini"]](rng(prop, "mini", e["mini"]))
                mp = Program(len(progs), ss, root, f"mini:{e['mini']}")
                mp.port = None
                mp.qfeature = (e.get("quarantine") or ["?"])[0]
                progs.append(mp)
        if prop in ("C01", "C02", "C03", "C04"):
            tp = Program(len(progs), gen_mini.occurrence_table(), root, "table:occurrence")
            tp.port = None
            progs.append(tp)
        if prop in ("C01", "C02", "C08", "C09", "C10"):
            # one namespace in two files, imported with another namespace's file in between
            for label, ss in gen_mini.split_namespace_family():
                sp = Program(len(progs), ss, root, label)
                sp.port = None
                progs.append(sp)
        if prop == "C18" or (prop == "C01" and tier != "quick"):
            # one client with more operations than any in the repository (its largest has 122); two minutes of rustc
            from .wsdl_driver import free_port
            ss = gen.generate(rng(prop, "many-operations"), gen.cfg_with(files=(1, 1), wsdl=True, quarantine=_quarantine([prop]), ops=(132, 136), complex_per_file=(0, 1),
                                                                       simple_per_file=(0, 1), elements_per_file=(0, 0), attr_named_simple=False, avoid_nested_same_name=True,
                                                                       headers=(0, 1), p_oneway=0.2, p_prelude_op_name=0.0))
            ss.features.add("more-than-128-operations")
            port = free_port()
            ss.wsdl.location = f"http://127.0.0.1:{port}/many"
            mp = Program(len(progs), ss, root, "many-operations")
            mp.port = port
            progs.append(mp)
        if prop in ("C01", "C05"):
            from .wsdl_driver import free_port
            ss = gen_mini.two_header_parts_of_one_element_program()
            port = free_port()
            ss.wsdl.location = f"http://127.0.0.1:{port}/tokens"
            tp = Program(len(progs), ss, root, "two-header-parts-of-one-element")
            tp.port = port
            progs.append(tp)
        if prop in ("C01", "C07"):
            from .wsdl_driver import free_port
            ss = gen_mini.derived_foreign_facets_program()
            port = free_port()
            ss.wsdl.location = f"http://127.0.0.1:{port}/derived"
            dp = Program(len(progs), ss, root, "derived-foreign-facets")
            dp.port = port
            progs.append(dp)
        if prop in ("C01", "C02", "C09", "C10"):
            for label, ss in gen_mini.schema_prefix_abbreviation_family():
                ap = Program(len(progs), ss, root, label)
                ap.port = None
                progs.append(ap)
        if prop in ("C01", "C02", "C03", "C09"):
            for label, ss in gen_mini.xml_named_family():
                xp = Program(len(progs), ss, root, label)
                xp.port = None
                progs.append(xp)
        if prop in ("C01", "C02", "C09", "C10"):
            for label, ss in gen_mini.inner_xmlns_family():
                ip = Program(len(progs), ss, root, label)
                ip.port = None
                progs.append(ip)
        if prop in ("C01", "C08", "C10"):
            # many namespaces with one abbreviation: more than nine, and more than ninety-nine in the thorough tier
            for n, ext in ((13, False), (24, True)) if tier == "quick" else ((13, False), (24, True), (112, True), (120, False)):
                cp = Program(len(progs), gen_mini.many_colliding_namespaces(n, ext), root, f"many-colliding-namespaces:{n}{'+extension' if ext else ''}")
                cp.port = None
                progs.append(cp)
        if prop in ("C01", "C02", "C03", "C04", "C08", "C09"):
            # declaration-order family: one fixed content in many declaration orders
            for label, ss in gen_mini.order_family_programs(rng(prop, "order-family"), {"C02": 32}.get(prop, 16) if tier == "quick" else 600):
                op = Program(len(progs), ss, root, label)
                op.port = None
                progs.append(op)
        if prop in ("C01", "C02", "C08", "C09", "C10"):
            # two inline schemas that refer to each other, in every order
            from .wsdl_driver import free_port
            for label, ss in gen_mini.mutual_inline_family():
                port = free_port()
                ss.wsdl.location = f"http://127.0.0.1:{port}/mutual"
                mp = Program(len(progs), ss, root, label)
                mp.port = port
                progs.append(mp)
        progs = run_programs(progs, stages)
        evaluated, accepted, compiled = 0, 0, 0
        fps = set()
        incon = []
        feature_counts = {}
        rule_counts = {}
        stats = {}
        excl_classes = {}
        samples = []
        for p in progs:
            if p.inconclusive:
                incon.append((p.label, p.inconclusive))
                continue
            evaluated += 1
            if p.gen and p.gen.get("outcome") == "ok":
                accepted += 1
            if p.compile and p.compile[0] == 0:
                compiled += 1
            if nontrivial is None or nontrivial(p):
                fps.add(fingerprint(p.ss))
            for ft in p.ss.features:
                feature_counts[ft] = feature_counts.get(ft, 0) + 1
            for k, x in p.stats.items():
                stats[k] = stats.get(k, 0) + x
            for k, d in p.excl.items():
                for cls, n in d.items():
                    excl_classes.setdefault(k, {})
                    excl_classes[k][cls] = excl_classes[k].get(cls, 0) + n
            for f in p.findings:
                rule_counts[f["rule"]] = rule_counts.get(f["rule"], 0) + 1
                sig = sigfun(f)
                if sig and getattr(p, "qfeature", None):
                    sig += f"|only-in={p.qfeature}"
                if sig:
                    detail = {k: x for k, x in f.items() if k not in ("flat",)}
                    detail["program"] = p.label
                    detail["features"] = sorted(p.ss.features)
                    if sig not in v.records:
                        v.violation(sig, detail, p.replay_files())
                    else:
                        v.violation(sig, detail)
            if len(samples) < 3:
                samples.append({"program": p.label, "features": sorted(p.ss.features),
                                "files": {k: (t if len(t) < 1500 else t[:1500] + "…") for k, t in p.files.items()}})
        cov = {
            "evaluations": evaluated, "distinct_nontrivial": len(fps), "rule": rule,
            "programs_generated": len(progs), "generator_accepted": accepted, "compiled": compiled,
            "inconclusive_programs": len(incon), "inconclusive_reasons": sorted(set(r[:160] for _, r in incon))[:5],
            "model_features_seen": feature_counts, "finding_rules_seen": rule_counts, "samples": samples,
        }
        prefixes = ("restr_cell:", "cell:", "opcell:", "scencell:")
        cells = {k: v for k, v in stats.items() if k.startswith(prefixes)}
        stats = {k: v for k, v in stats.items() if not k.startswith(prefixes)}
        scen = {k.split(":", 1)[1]: v for k, v in stats.items() if k.startswith("scenario:")}
        stats = {k: v for k, v in stats.items() if not k.startswith("scenario:")}
        cov.update(stats)
        if scen:
            cov["calls_per_scenario"] = scen
        if cell_prefix:
            mine = {k.split(":", 1)[1]: v for k, v in cells.items() if k.startswith(cell_prefix)}
            cov["cells_observed"] = len(mine)
            cov["cells"] = mine
            # distinct cases = distinct cells of the property's mechanism that were actually exercised
            cov["distinct_programs"] = cov["distinct_nontrivial"]
            cov["distinct_nontrivial"] = len(mine)
        if eval_key:
            cov["programs_evaluated"] = cov["evaluations"]
            cov["evaluations"] = int(cov.get(eval_key, 0))
            cov["evaluations_unit"] = eval_key
        if excl_classes:
            cov["exclusion_classes"] = excl_classes
        if extra_cov:
            cov.update(extra_cov(progs))
        if prop == "C10":
            from . import raw_cases
            cov.update(raw_cases.run(v, prop, root))
        if len(incon) > len(progs) * 0.1:
            v.inconclusive = f"{len(incon)} of {len(progs)} programs inconclusive: {incon[0][1][:300]}"
        elif accepted < evaluated * 0.5:
            v.inconclusive = f"generator accepted only {accepted} of {evaluated} in-subset programs"
        elif stages and prop != "C01" and compiled < accepted * 0.7 and not v.records:
            # a program that does not compile is C01's finding; the later stages of this check had nothing to look at (when this
            # check did record violations on the programs it could judge, those stand)
            v.inconclusive = (f"only {compiled} of {accepted} generated programs compiled (see C01): too few executions to "
                              f"say anything about {prop}")
        v.finish(cov, assumptions=[
            "schema sets come from vf/gen.py (DESIGN §2 grammar), rendered by vf/render.py; expectations from vf/refmap.py",
            "rustc (stable, edition 2024) with --extern limited to yaserde, yaserde_derive, xml-rs, log, reqwest, tokio built from /repo/Cargo.lock",
        ], min_evaluations=min_eval)
    finally:
        shutil.rmtree(root, ignore_errors=True)


def core_cfgs(q):
    return [
        ("core", gen.cfg_with(files=(1, 3), quarantine=q, p_twin=0.3, own_ns_default=0.3, p_self_member=0.25)),
        ("core-many-files", gen.cfg_with(files=(3, 4), quarantine=q, complex_per_file=(1, 3), own_ns_default=0.3)),
        ("core-keywords", gen.cfg_with(files=(1, 2), keyword_rate=0.35, quarantine=q)),
        ("wsdl", gen.cfg_with(files=(1, 3), wsdl=True, quarantine=q, complex_per_file=(0, 2), simple_per_file=(0, 2), p_inline_schemas=0.4)),
    ]


def wsdl_cfgs(q):
    return [
        # attributes of named simple types are left out of the client profiles: yaserde can not read a struct-typed attribute
        # back (C04 counts that under its reference-struct exclusion), and here it would fail every response
        ("wsdl", gen.cfg_with(files=(1, 3), wsdl=True, quarantine=q, complex_per_file=(0, 2), simple_per_file=(0, 2), elements_per_file=(0, 1),
                              attr_named_simple=False, avoid_nested_same_name=True, p_inline_schemas=0.4)),
        ("wsdl-keywords", gen.cfg_with(files=(1, 2), wsdl=True, p_inline_schemas=0.3, quarantine=q, keyword_rate=0.3, p_prelude_op_name=0.35, complex_per_file=(0, 2), simple_per_file=(0, 2),
                                       elements_per_file=(0, 1), attr_named_simple=False, avoid_nested_same_name=True)),
        # every special operation name in turn (names of prelude types, `new`, single-letter words, leading acronyms), each with a soapAction
        ("wsdl-opnames", gen.cfg_with(files=(1, 2), wsdl=True, quarantine=q, p_prelude_op_name=1.0, op_names_in_turn=True, p_soap_action=1.0, ops=(3, 4), complex_per_file=(0, 1),
                                      simple_per_file=(0, 1), elements_per_file=(0, 1), attr_named_simple=False, avoid_nested_same_name=True, p_inline_schemas=0.3)),
        ("wsdl-headers", gen.cfg_with(files=(1, 3), wsdl=True, quarantine=q, headers=(1, 3), p_headers_share_element=1.0, p_parts_attr=0.3, complex_per_file=(0, 1), p_part_element_cross=0.5, p_inline_schemas=0.4,
                                      simple_per_file=(0, 2), elements_per_file=(0, 1), ops=(1, 3), attr_named_simple=False, avoid_nested_same_name=True)),
    ]


WSDL_RULES = {
    "C05": "generated document/literal WSDLs (1-4 operations, all name styles and keywords, one-/two-way, 0-3 header parts per direction, "
           "with/without parts=, part names equal to or different from element names, elements in inline or imported namespaces); the "
           "client is discovered from the emitted text (syn), request envelopes are built from abstract samples, serialized and compared as "
           "infosets with the independently constructed SOAP 1.1 envelope, every operation is called against a loopback listener at the "
           "WSDL's own address (paths with query strings, matrix parameters, trailing slash, no path) and the returned value's Debug "
           "is compared with the expected response value. evaluations = client calls observed at the listener; distinct = (name style, "
           "keyword, one-/two-way, header counts, parts=) cells of the operations run",
    "C16": "per generated client and operation the complete scenario table is run against the scripted loopback listener: statuses 200/201/204/"
           "400/401/403/404/500/503 x bodies {exact envelope in 5 prefix styles, empty, non-XML, non-envelope XML, SOAP fault, wrong body "
           "element, 5 truncations} x transport faults {closed before headers, closed after the request, body shorter than Content-Length} x "
           "credentials {absent, ascii, with ':' and empty password, non-ASCII}; plus 32 concurrent calls. The listener logs each request "
           "before replying; expected: one POST with the exact serialized envelope and the exact Basic header; a value iff 2xx and the body "
           "is the envelope. Distinct = (scenario, one-/two-way, header count) cells observed",
    "C18": "for every operation of generated clients the driver contains assert_send(&future) for the service method and the free-standing "
           "function, assert_send_sync::<Envelope>() for request and response types, and runs each call through tokio::spawn on a 2-worker "
           "multi-thread runtime; rustc's E0277 on those lines and non-completing spawns are violations. Distinct = operation-shape cells",
}


def _has_ambiguous_names(p):
    seen = {}
    for f, c in p.ss.all_components():
        seen[c.name.xml] = seen.get(c.name.xml, 0) + 1
    return any(v > 1 for v in seen.values())


def profiles(q):
    pool = ["item", "code", "data", "info", "list", "note"]
    d = dict(core_cfgs(q))
    d.update(dict(wsdl_cfgs(q)))
    d.update({
        "restr": gen.cfg_with(files=(1, 3), wsdl=True, p_inline_schemas=0.3, quarantine=q, simple_per_file=(3, 6), complex_per_file=(1, 3), avoid_nested_same_name=True,
                              elements_per_file=(0, 1), p_simple_derived=0.5, headers=(0, 2), ops=(1, 3), p_oneway=0.3),
        "ext": gen.cfg_with(files=(1, 3), quarantine=q, p_ext=0.75, complex_per_file=(3, 6), simple_per_file=(0, 2),
                            elements_per_file=(0, 2), p_cross_file=0.6, own_ns_default=0.3, p_attrs_only_type=0.25, p_self_member=0.2),
        # extension forests spread over the inline schemas of one WSDL (bases in a schema that comes later in the document)
        "ext-wsdl": gen.cfg_with(files=(2, 3), wsdl=True, p_inline_schemas=1.0, quarantine=q, p_ext=0.8, complex_per_file=(2, 4), simple_per_file=(0, 1),
                                 elements_per_file=(0, 1), p_cross_file=0.7, ops=(1, 2), attr_named_simple=False, avoid_nested_same_name=True),
        "ext-keywords": gen.cfg_with(files=(2, 3), quarantine=q, p_ext=0.75, complex_per_file=(3, 5), keyword_rate=0.25),
        "names": gen.cfg_with(files=(3, 4), quarantine=q, name_pool=pool, max_words=2, keyword_rate=0.0, reuse_names=True, p_component_rebinds_prefix=0.6,
                              p_ref=0.45, p_ext=0.45, p_cross_file=0.7, elements_per_file=(1, 3), complex_per_file=(2, 4)),
        "names-wsdl": gen.cfg_with(files=(2, 3), wsdl=True, p_inline_schemas=0.3, quarantine=q, name_pool=pool + ["part", "body"], max_words=2, keyword_rate=0.0,
                                   reuse_names=True, p_ref=0.4, p_cross_file=0.7, attr_named_simple=False, avoid_nested_same_name=True, ops=(1, 3), p_part_element_cross=0.6,
                                   complex_per_file=(1, 2), simple_per_file=(0, 2), elements_per_file=(1, 2), p_part_name_differs=0.3),
        # a file and its twin (same layout and local names, other namespace and members), both read in one run
        "names-twin": gen.cfg_with(files=(2, 3), quarantine=q, name_pool=pool, max_words=2, keyword_rate=0.0, reuse_names=True, p_twin=1.0, own_ns_default=0.5,
                                   p_ref=0.5, p_ext=0.6, p_cross_file=0.15, elements_per_file=(1, 3), complex_per_file=(2, 4)),
        "ext-twin": gen.cfg_with(files=(2, 3), quarantine=q, p_ext=0.8, complex_per_file=(3, 5), simple_per_file=(0, 1), p_twin=1.0, own_ns_default=0.5,
                                 elements_per_file=(0, 2), p_cross_file=0.15),
        "ns": gen.cfg_with(files=(3, 4), quarantine=q, adversarial_uris=True, nested_xmlns=0.5, p_prefix_clash=0.7, complex_per_file=(1, 2),
                           simple_per_file=(1, 2), elements_per_file=(0, 1), p_cross_file=0.8, default_ns_own=0.4),
        "ns-wsdl": gen.cfg_with(files=(2, 4), wsdl=True, p_inline_schemas=0.3, quarantine=q, adversarial_uris=True, nested_xmlns=0.4, complex_per_file=(0, 1),
                                simple_per_file=(0, 1), elements_per_file=(0, 1), ops=(1, 2), attr_named_simple=False, avoid_nested_same_name=True, p_cross_file=0.8),
    })
    return d


def pick(q, *names):
    d = profiles(q)
    return [(n, d[n]) for n in names]


def all_cfgs(q):
    return list(profiles(q).items())


def run_c14(tier):
    from . import gen_c14
    from .model import KEYWORDS
    v = Verdict("C14", tier, "exploration")
    root = common.scratch("c14")
    try:
        if tier == "quick":
            r = rng("C14", "keywords")
            kws = list(dict.fromkeys(gen_c14.ALWAYS + r.sample([k for k in KEYWORDS if k not in gen_c14.ALWAYS], 6)))
        else:
            kws = list(KEYWORDS)
        progs = []
        seed_offset = common.seed_value()
        base = Program(0, gen_c14.base_program(), root, "baseline")
        base.port = None
        progs.append(base)
        for kw, pos, ss in gen_c14.keyword_matrix(kws, None if tier == "thorough" else ["move", "type", "match", "self", "gen"]):
            p = Program(len(progs), ss, root, f"keyword:{kw}@{pos}")
            p.port = None
            p.c14 = ("keyword", kw, pos, None)
            progs.append(p)
        weird = gen_c14.weird_name_matrix()
        if tier == "quick":
            # a quarter of the cells, rotating through the positions from name to name (a plain stride would hit the same two
            # positions for every name)
            weird = [w for k, w in enumerate(weird) if (k + k // len(gen_c14.POSITIONS)) % 4 == seed_offset % 4]
        for nm, pos, ss in weird:
            p = Program(len(progs), ss, root, f"weird-name:{nm}@{pos}")
            p.port = None
            p.c14 = ("weird-name", nm, pos, None)
            progs.append(p)
        for cls, pos, text, ss in gen_c14.payload_matrix():
            p = Program(len(progs), ss, root, f"payload:{cls}@{pos}")
            p.port = None
            p.c14 = ("payload", cls, pos, text)
            progs.append(p)
        progs = run_programs(progs, ["static"])
        base = progs[0]
        if base.inconclusive or not base.shape or not base.shape.get("ok") or not base.compile or base.compile[0] != 0:
            raise Inconclusive(f"the C14 baseline program does not generate/compile: {base.inconclusive or base.findings[:2]}")
        base_idents = set(base.shape["idents"])
        evaluated = 0
        accepted = 0
        cells = set()
        outcomes = {}
        samples = []
        for p in progs[1:]:
            if p.inconclusive:
                continue
            kind, a, pos, text = p.c14
            evaluated += 1
            cells.add((kind, a, pos))
            gen_ok = p.gen and p.gen.get("outcome") == "ok"
            files = p.replay_files()
            if not gen_ok:
                rules = [f["rule"] for f in p.findings]
                outcomes[f"{kind}:rejected"] = outcomes.get(f"{kind}:rejected", 0) + 1
                if "generator-panic" in rules or "generator-died" in rules:
                    v.violation(f"C14|{kind}|{'kw-class=' + _kw_class(a) if kind == 'keyword' else 'payload-class=' + a}|position={pos}|failure=generator-crash",
                                {"program": p.label, "findings": p.findings[:2]}, files)
                elif kind in ("keyword", "weird-name"):
                    # a keyword is a legal XML name: rejecting it is not "usable as a name"
                    v.violation(f"C14|keyword|kw-class={_kw_class(a)}|position={pos}|failure=rejected", {"program": p.label, "findings": p.findings[:2]}, files)
                continue
            accepted += 1
            outcomes[f"{kind}:accepted"] = outcomes.get(f"{kind}:accepted", 0) + 1
            tag = f"kw-class={_kw_class(a)}" if kind == "keyword" else (f"payload-class={a}" if kind == "payload" else f"name-class={_name_class(a)}")
            for f in p.findings:
                if f["rule"] == "parse-error":
                    v.violation(f"C14|{kind}|{tag}|position={pos}|failure=parse-error", {"program": p.label, "keyword_or_payload": a, "error": f.get("error"), "line": f.get("line")}, files)
                elif f["rule"] == "compile-error":
                    v.violation(f"C14|{kind}|{tag}|position={pos}|failure={f['code']}", {"program": p.label, "keyword_or_payload": a, "message": f["message"], "text": f["text"]}, files)
                elif kind == "weird-name":
                    pass
                elif f["rule"] in ("struct-missing", "member-missing") and kind == "keyword":
                    v.violation(f"C14|keyword|{tag}|position={pos}|failure={f['rule']}", {"program": p.label, "keyword": a, "finding": {k: x for k, x in f.items() if k != 'flat'}}, files)
            if not p.shape or not p.shape.get("ok"):
                continue
            if kind == "weird-name":
                # same number of structs, members and client methods as the baseline: nothing was dropped for its name
                def counts(shape):
                    st = [x for x in shape["structs"] if x["module"].split("::")[0] not in refmap.HELPER_MODULES]
                    fns = sum(len(i["fns"]) for i in shape["impls"] if i["trait"] is None and i["module"] == "")
                    return len(st), sum(len(x["fields"]) for x in st), fns
                if counts(p.shape) != counts(base.shape):
                    v.violation(f"C14|weird-name|{tag}|position={pos}|failure=component-count-changed",
                                {"program": p.label, "name": a, "baseline": counts(base.shape), "got": counts(p.shape)}, files)
                continue
            if kind == "payload":
                idents = set(p.shape["idents"])
                new = sorted(idents - base_idents)
                if pos.startswith(("target-namespace", "imported-namespace")):
                    # a namespace URI legitimately names its module and prefix
                    import re as _re
                    # (whether that name is a legal identifier is rustc's call, above)
                    new = [i for i in new if not _re.fullmatch(r"mod_\w+", i)]
                leaked = [i for i in p.shape["idents"] if gen_c14.MARK in i] + [l for l in p.shape["other_lits"] if gen_c14.MARK in l]
                if new or leaked:
                    v.violation(f"C14|injection|position={pos}|payload-class={a}|seen-as=identifier-or-code",
                                {"program": p.label, "new_identifiers": new[:10], "leaked": leaked[:5], "text": text}, files)
                lits = p.shape["lit_strs"]
                if pos == "enumeration" or pos.startswith(("target-namespace", "imported-namespace")):
                    if text not in lits:
                        near = [l for l in lits if gen_c14.MARK in l][:3]
                        v.violation(f"C14|literal-value|position={pos}|payload-class={a}",
                                    {"program": p.label, "expected": text, "literals_with_marker": near}, files)
                if len(samples) < 6 and len(cells) % 23 == 0:
                    samples.append({"payload_class": a, "position": pos, "text": text, "generator": "accepted"})
            elif len(samples) < 4 and len(cells) % 31 == 0:
                samples.append({"keyword": a, "position": pos, "generator": "accepted"})
        cov = {
            "evaluations": evaluated, "distinct_nontrivial": len(cells),
            "rule": "hand-built two-file WSDL program (vf/gen_c14.py) with (a) each keyword of the tier's list (quick: the 12 hardest + 6 seeded; "
                    "thorough: all strict, reserved and weak keywords of edition 2024) in each of 8 naming positions (local element, attribute, "
                    "complex type, simple type, global element, operation, part, service) and (b) each of 16 payload classes in each of 19 text "
                    "positions (enumeration value, numeric facet, length facet, the facets without a generated counterpart: pattern, whiteSpace, totalDigits, fractionDigits; simple/complex documentation, target / imported namespace URI, "
                    "endpoint address, soapAction; the four URI positions both as http:// and as urn: URIs, the namespace URIs also with the payload leading the last path segment). Oracles: syn parse, rustc compile, component still present (keywords), identifier set "
                    "equal to the payload-free baseline and marker absent from identifiers and non-string literals (payloads), string "
                    "literal value == original text for enumeration values and namespace URIs. Distinct = (kind, keyword|class, position) cells",
            "exhaustive": tier == "thorough", "keywords": kws, "generator_accepted": accepted, "outcomes": outcomes, "samples": samples or [{"note": "see cells"}],
        }
        v.finish(cov, assumptions=["a generator error on a payload input is acceptable (the property speaks about outputs); a crash is not",
                                   "rustc (stable, edition 2024) is the authority on identifier legality"], min_evaluations=50)
    finally:
        shutil.rmtree(root, ignore_errors=True)


def _name_class(nm):
    cls = []
    if any(ord(c) > 127 for c in nm):
        cls.append("non-ascii")
    if "." in nm:
        cls.append("dot")
    if "-" in nm:
        cls.append("dash")
    if any(c.isdigit() for c in nm):
        cls.append("digit")
    if nm.startswith("_") or "__" in nm:
        cls.append("underscore")
    return "+".join(cls) or "plain"


def _kw_class(kw):
    from .model import NOT_RAW, STRICT_KEYWORDS, RESERVED_KEYWORDS, KEYWORDS
    if kw not in KEYWORDS and kw.lower() in KEYWORDS:
        return "keyword-after-case-conversion"
    if kw in NOT_RAW:
        return "cannot-be-raw"
    if kw in STRICT_KEYWORDS:
        return "strict"
    if kw in RESERVED_KEYWORDS:
        return "reserved"
    return "weak"


def run(prop, tier):
    if prop == "C14":
        return run_c14(tier)
    q = _quarantine([prop])
    if prop == "C01":
        wide = [("core-wide-facets", gen.cfg_with(files=(1, 2), quarantine=q, wide_facets=0.8, simple_per_file=(3, 5), complex_per_file=(1, 2)))]
        # compile-only and cheap: the profiles of the other structural properties as well (adversarial namespaces incl. three
        # and more colliding abbreviations, reused names, extension forests and twins)
        more = pick(q, "ns", "ns-wsdl", "names", "ext", "ext-twin", "wsdl-opnames")
        check_generic("C01", tier, core_cfgs(q) + wide + more, 80, 3000, sig_c01, [], rule=(
            "random schema sets over the DESIGN §2 grammar (profiles core, core-many-files, core-keywords, wsdl; one program per "
            "seed sub-stream), generated by the real zeep-lib, emitted file compiled with rustc --emit=metadata against the six "
            "documented crates only. Non-trivial = every program (all contain >= 1 component); distinct = structural fingerprint of "
            "the schema set with names abstracted away"))
    elif prop == "C02":
        check_generic("C02", tier, core_cfgs(q)[:3], 40, 1500, sig_c02, ["static", "probe"], rule=(
            "same generator as C01 (XSD profiles); oracle (a) static: emitted struct set and member name lists (syn) vs. the reference "
            "mapping; (b) typed probe: one struct literal per expected struct, each member initialised through is::<ExpectedType>(..), "
            "compiled with rustc — E0308 on a member's line is a type deviation. Non-trivial = programs with >= 1 struct compared"),
            nontrivial=lambda p: p.stats.get("structs_compared", 0) > 0)
    elif prop in ("C05", "C16", "C18"):
        from . import engine_w
        sigf = {"C05": sig_c05, "C16": sig_c16, "C18": sig_c18}[prop]
        full = prop != "C18"
        cfgs = wsdl_cfgs(q)
        if prop in ("C05", "C18"):
            # requests and replies with some thirty members
            cfgs = cfgs + [("wsdl-wide", gen.cfg_with(files=(1, 2), wsdl=True, quarantine=q, complex_per_file=(0, 2), simple_per_file=(0, 1), elements_per_file=(0, 1),
                                                     attr_named_simple=False, avoid_nested_same_name=True, p_inline_schemas=0.4, p_wide_content=0.6, ops=(1, 2)))]
        if prop == "C05":
            # reused names (header / body elements with one local name in several namespaces) and several headers
            cfgs = cfgs + [("names-wsdl-headers", gen.cfg_with(**dict(profiles(q)["names-wsdl"], headers=(2, 3), ops=(1, 2), p_header_namesakes=0.7)))]
        nq, nt = {"C05": (20, 500), "C16": (8, 120), "C18": (16, 400)}[prop]
        def wsdl_stage(p):
            engine_w.stage_wsdl(p, full_matrix=full)
        # programs that do not compile still have their methods and envelopes judged from the emitted text
        wsdl_stage.static_part = lambda p: engine_w.stage_wsdl(p, full_matrix=full, static_only=True)
        check_generic(prop, tier, cfgs, nq, nt, sigf, ["static", "probe", wsdl_stage],
                      level="fault_enumeration" if prop == "C16" else "exploration", rule=WSDL_RULES[prop],
                      nontrivial=lambda p: p.stats.get("operations_run", 0) > 0, min_eval=4,
                      cell_prefix="scencell:" if prop == "C16" else "opcell:",
                      eval_key="calls_observed" if prop != "C18" else "operations_run")
    elif prop == "C07":
        from . import engine_w
        cfgs = pick(q, "restr")
        check_generic("C07", tier, cfgs, 12, 300, sig_c07, ["static", "probe", engine_w.stage_restr], rule=(
            "WSDL programs with 3-6 restricted simple types per file (all facet kinds, derivation chains across namespaces) used as "
            "elements and attributes, optional/repeated, nested, in header and body elements; per operation: 4 all-valid request "
            "envelopes (full/low-boundary/high-boundary/many), up to 10 more in which one leaf carries another valid value of its type "
            "(every enumeration member, both ends of a length or value range, the empty string where the type allows it), and one envelope per reachable (position, violated facet) with exactly one "
            "violating value (enumerated, capped at 40); for each the driver records check_restrictions(None) and runs the client call "
            "against the listener, which counts accepted connections. Reference: a sample fails iff it contains the violating value. "
            "Distinct = (part/position/depth/optional/repeated/facet/derivation) cells hit by a violating sample"),
            nontrivial=lambda p: p.stats.get("restr_samples", 0) > p.stats.get("restr_valid_samples", 0), min_eval=4,
            cell_prefix="restr_cell:", eval_key="restr_samples")
    elif prop == "C08":
        cfgs = pick(q, "ext", "ext-keywords", "ext-twin", "ext-wsdl")
        check_generic("C08", tier, cfgs, 24, 800, sig_c08, ["static", "probe", stage_runtime], rule=(
            "extension forests: depth 1-4 chains, bases declared before/after/in another file, own content empty / sequences / choices / "
            "attributes, same or different namespaces; oracle = the C02 member-list and typed-probe oracle restricted to derived "
            "structs (inherited members first, in the base's order, then own elements, then own attributes) and the C03 wire oracle on "
            "values of derived types (inherited members keep the namespace of the declaring schema). Non-trivial = programs with an extension"),
            nontrivial=lambda p: any(ft.startswith("extension") for ft in p.ss.features))
    elif prop == "C09":
        from . import engine_w
        cfgs = pick(q, "names", "names-wsdl", "names-twin")
        check_generic("C09", tier, cfgs, 24, 800, sig_c09,
                      ["static", "probe", stage_runtime, lambda p: engine_w.stage_wsdl(p, full_matrix=False)], rule=(
            "schema sets in which a pool of six words is reused for types in every namespace, global elements, local elements, attributes, "
            "messages and parts; the same prefix is bound to different URIs in different files; declaration order and file split are random. "
            "Oracles: typed probe (a member's type must be the struct of the namespace the prefix is bound to, a derived struct must show "
            "that base's members), wire namespaces, and for WSDLs the body/header elements on the wire. Non-trivial = programs in which "
            "some local name is used by >= 2 components"),
            nontrivial=_has_ambiguous_names)
    elif prop == "C10":
        cfgs = pick(q, "ns", "ns-wsdl")
        check_generic("C10", tier, cfgs, 48, 3000, sig_c10, ["static", "probe", stage_ns, lambda p: stage_runtime(p, 1, False)], rule=(
            "2-4 namespaces per set drawn from an adversarial pool (equal last path segments /v1/types /v2/types, equal three-letter "
            "abbreviations, dots, dashes, trailing slashes, URNs, non-ASCII, digits only), declared on the root, on the using component, "
            "as targetNamespace only, or in imported files, in random import orders, XSD and WSDL starts. Static oracle over the emitted "
            "text (syn): prefix<->URI and module<->URI injective both ways, no duplicate module, one module per namespace, every member "
            "prefix bound in its struct to the declaring schema's URI; plus compile and one serialized value per struct (prefix "
            "bindings on the wire). Non-trivial = programs with >= 2 distinct URIs seen"),
            nontrivial=lambda p: p.stats.get("ns_distinct_uris", 0) >= 2)
    elif prop in ("C03", "C04"):
        sigf = sig_c03 if prop == "C03" else sig_c04
        check_generic(prop, tier, core_cfgs(q)[:3] + pick(q, "ext", "ext-wsdl"), 40, 900, sigf, ["static", "probe", stage_runtime], rule=(
            "generator as C01 (XSD profiles) plus the extension-forest profile of C08 (chains over several namespaces); for every complex type and anonymous global element up to 4 sampled values "
            "(minimal / full / many / boundary) are built as Rust literals of the emitted types and of independently written "
            "reference structs, serialized, deserialized from 5 independently rendered instance styles, re-serialized; all XML "
            "is compared as namespace-aware infosets (expat) with the expected infoset of the abstract value; the Default value of "
            "every struct is serialized on both sides as well and must show the same elements and attributes. A deviation that the "
            "reference structs show as well is attributed to the yaserde runtime and excluded (counted under excluded:*). "
            "Non-trivial = programs with >= 1 value run"),
            nontrivial=lambda p: p.stats.get("runtime_cases", 0) > 0)
    else:
        raise Inconclusive(f"no check registered for {prop}")


# ------------------------------------------------------------------------------------------------ run-time stage (C03/C04)

def stage_runtime(p, values_per_struct=4, with_docs=True):
    """Build values of every root type in g and in the reference structs r, serialize, deserialize instance documents
    in several styles, and record findings for C03 (wire conformance) and C04 (lossless reading, fixpoint)."""
    from . import driver, instance, sample
    p.refemit = driver.RefEmit(p)
    glit = driver.GLit(p)
    # a struct whose probe showed a type deviation is not constructed (C02 reports it)
    for f in p.findings:
        if f["rule"] == "member-type":
            for e in p.expected:
                if e["xml"] == f["struct"]:
                    e["type_deviation"] = True
    r = rng("values", p.label)
    sampler = sample.Sampler(r)
    cases = []
    meta = {}
    unbuildable = 0
    def reaches_recursive(comp, seen=()):
        # a type with a member of its own type, or one that contains such a type: yaserde 0.12 cannot read these back (a child
        # element named like a member of the child's struct makes its derived deserializer loop), bare or wrapped alike — C19
        # says the same about its self-referential probe. They are compiled and shape-checked (C01, C02), not run.
        if any(comp is c for c in seen):
            return True
        for m in gen.flat_members(comp):
            kind, t = refmap.member_target(m)
            if kind != "builtin" and t.kind != "simple" and reaches_recursive(t, seen + (comp,)):
                return True
        return False

    for e in p.expected:
        if e["members"] is None:
            continue
        comp = e["comp"]
        if reaches_recursive(comp):
            p.stats["excluded:self-referential-type-not-run"] = p.stats.get("excluded:self-referential-type-not-run", 0) + 1
            continue
        for k, v in enumerate(sampler.values_for(comp, values_per_struct)):
            cid = f"v{len(cases)}"
            constrained = e["kind"] == "anon-element"
            tree = instance.expected_tree(p.ss, v, (e["uri"], e["xml"]))
            if not constrained:
                tree.origin = "root-unconstrained"
            docs = [instance.render(tree, st, rng("doc", p.label, cid, st)) for st in instance.STYLES] if with_docs else []
            r_lit = p.refemit.literal(v)
            try:
                g_lit = glit.literal(v)
            except driver.GLit.Unbuildable:
                unbuildable += 1
                # the struct deviates from the reference mapping (C02 reports that); the wire-level round trip of valid
                # instance documents is still judged: read each document into the emitted type and write it again
                hits = p.located.get(id(e), [])
                if len(hits) == 1 and docs:
                    docs_src = ", ".join(driver.rust_str(d) for d in docs)
                    dflt = (f"    run_default::<r::{p.refemit.names[id(comp)]}>({driver.rust_str(cid)}, \"r\"); "
                            f"run_default::<{refmap.rust_path(hits[0])}>({driver.rust_str(cid)}, \"g\");\n") if k == 0 else ""
                    fn = (f"fn case_{cid}() {{\n    let docs: [&str; {len(docs)}] = [{docs_src}];\n" + dflt +
                          f"    {{ let rv = {r_lit}; run_case({driver.rust_str(cid)}, \"r\", &rv, &docs); }}\n"
                          f"    run_docs::<{refmap.rust_path(hits[0])}>({driver.rust_str(cid)}, \"g\", &docs);\n"
                          f"    emit(format!(\"{{{{\\\"ev\\\":\\\"case-done\\\",\\\"id\\\":{{}}}}}}\", js({driver.rust_str(cid)})));\n}}\n")
                    cases.append((cid, fn))
                    meta[cid] = {"entry": e, "value": v, "tree": tree, "docs": docs, "constrained": constrained, "docs_only": True}
                continue
            docs_src = ", ".join(driver.rust_str(d) for d in docs)
            hits = p.located.get(id(e), [])
            dflt = (f"    run_default::<r::{p.refemit.names[id(comp)]}>({driver.rust_str(cid)}, \"r\"); "
                    f"run_default::<{refmap.rust_path(hits[0])}>({driver.rust_str(cid)}, \"g\");\n") if k == 0 and len(hits) == 1 else ""
            fn = (f"fn case_{cid}() {{\n    let docs: [&str; {len(docs)}] = [{docs_src}];\n" + dflt +
                  f"    {{ let rv = {r_lit}; run_case({driver.rust_str(cid)}, \"r\", &rv, &docs); }}\n"
                  f"    {{ let v = {g_lit}; run_case({driver.rust_str(cid)}, \"g\", &v, &docs); run_check({driver.rust_str(cid)}, &v); }}\n"
                  f"    emit(format!(\"{{{{\\\"ev\\\":\\\"case-done\\\",\\\"id\\\":{{}}}}}}\", js({driver.rust_str(cid)})));\n}}\n")
            cases.append((cid, fn))
            meta[cid] = {"entry": e, "value": v, "tree": tree, "docs": docs, "constrained": constrained}
    p.stats["values_unbuildable"] = unbuildable
    p.stats["values_built"] = len(cases)
    if not cases:
        return
    events, hung, diags = driver.build_and_run(p, cases)
    if diags is not None:
        p.inconclusive = f"driver does not compile: {diags[:2]}"
        return
    by = {}
    for ev in events:
        if "id" in ev:
            by.setdefault((ev["id"], ev.get("side", "g")), []).append(ev)
    for h in hung:
        m = meta.get(h["id"])
        if h["side"] == "r":
            p.stats["excluded:reference-" + h["how"].split()[0]] = p.stats.get("excluded:reference-" + h["how"].split()[0], 0) + 1
        else:
            p.finding("runtime-hang" if h["how"] == "hang" else "runtime-crash", struct=m["entry"]["xml"] if m else "?", how=h["how"],
                      stderr=h.get("stderr", ""))
    p.stats["runtime_cases"] = 0
    counters = p.stats

    def bump(k, n=1, example=None):
        counters[k] = counters.get(k, 0) + n
        if example is not None:
            import re as _re
            cls = _re.sub(r"[^ ]+ is a required field of [^ ]+", "<member> is a required field of <struct>", str(example))
            cls = _re.sub(r"\d+", "N", cls)[:100]
            p.excl.setdefault(k, {})
            p.excl[k][cls] = p.excl[k].get(cls, 0) + 1

    def diffs_of(text, tree):
        try:
            act = instance.parse(text)
        except instance.ParseError as e:
            return [{"kind": "not-wellformed", "reason": str(e).split(":")[0], "detail": str(e)}]
        return instance.compare(tree, act)

    def dclass(d):
        o = d.get("origin")
        return (d["kind"], tuple(o) if isinstance(o, (list, tuple)) else o, d.get("builtin"), d.get("reason"))

    for cid, m in meta.items():
        ge = {e["ev"] + (str(e.get("doc", ""))): e for e in by.get((cid, "g"), [])}
        re_ = {e["ev"] + (str(e.get("doc", ""))): e for e in by.get((cid, "r"), [])}
        if "end" not in ge or "end" not in re_:
            continue
        bump("runtime_cases")
        e = m["entry"]
        tree = m["tree"]
        # ---- C03: the default value (nothing present that the type can leave out) on both sides: same elements and attributes.
        # This needs no value literal, so it also sees a struct whose shape deviates (a member that cannot be left out).
        gdf, rdf = ge.get("default"), re_.get("default")
        if gdf and rdf and gdf.get("ok") and rdf.get("ok"):
            try:
                rtree, gtree = instance.parse(rdf["text"]), instance.parse(gdf["text"])
            except instance.ParseError:
                rtree = gtree = None
            if rtree is not None:
                bump("c03_default_values_compared")

                def skeleton(n):
                    return (n.local, n.uri, tuple(sorted(a[0][1] if isinstance(a[0], tuple) else a[0] for a in n.attrs)),
                            tuple(skeleton(c) for c in (n.children or [])))
                if skeleton(rtree) != skeleton(gtree):
                    rk = [c.local for c in (rtree.children or [])]
                    gk = [c.local for c in (gtree.children or [])]
                    kind = "child-extra" if len(gk) > len(rk) else ("child-missing" if len(gk) < len(rk) else "differs")
                    p.finding("default-value", struct=e["xml"], kind=kind, reference=rdf["text"][:300], generated=gdf["text"][:300])
        # ---- C03: serialization
        gs, rs_ = ge.get("ser"), re_.get("ser")
        r_diffs = set()
        if rs_ and rs_["ok"]:
            r_diffs = {dclass(d) for d in diffs_of(rs_["text"], tree)}
        if gs is None and not m.get("docs_only"):
            continue
        if m.get("docs_only"):
            bump("docs_only_cases")
            gs = {"ok": False, "skip": True}
        if gs.get("skip"):
            pass
        elif not gs["ok"]:
            if rs_ and not rs_["ok"]:
                bump("excluded:ser-error-in-reference-too")
            else:
                p.finding("ser-error", struct=e["xml"], err=gs.get("err"))
        else:
            gd = diffs_of(gs["text"], tree)
            bump("c03_values_compared")
            bump("c03_elements_compared", gs["text"].count("</") + gs["text"].count("/>"))
            for d in gd:
                if dclass(d) in r_diffs:
                    bump("excluded:ser-" + d["kind"], example=d.get("kind"))
                    continue
                p.finding("wire", struct=e["xml"], diff=d, xml=gs["text"][:600], constrained=m["constrained"])
        # ---- C04: fixpoint
        gf, rf = ge.get("fix"), re_.get("fix")
        if gf is not None:
            bump("c04_fixpoints")
            r_bad = rf is not None and (not rf.get("de_ok") or (rs_ and rf.get("text") != rs_.get("text")))
            if not gf.get("de_ok"):
                if rf is not None and not rf.get("de_ok") and _err_class(rf.get("err")) == _err_class(gf.get("err")):
                    bump("excluded:fixpoint-de-error-in-reference-too", example=gf.get("err"))
                else:
                    p.finding("fixpoint-de-error", struct=e["xml"], err=gf.get("err"), xml=(gs.get("text") or "")[:400],
                              features=_value_features(m["value"]))
            elif gf.get("text") != gs.get("text"):
                if r_bad:
                    bump("excluded:fixpoint-differs-in-reference-too")
                else:
                    p.finding("fixpoint-differs", struct=e["xml"], first=gs.get("text", "")[:400], second=(gf.get("text") or "")[:400],
                              features=_value_features(m["value"]))
        # ---- C04: instance documents
        for j, doc in enumerate(m["docs"]):
            gd_, rd_ = ge.get(f"de{j}"), re_.get(f"de{j}")
            if gd_ is None:
                continue
            bump("c04_documents")
            style = instance.STYLES[j]
            if not gd_["de_ok"]:
                if rd_ is not None and not rd_["de_ok"] and _err_class(rd_.get("err")) == _err_class(gd_.get("err")):
                    bump("excluded:de-error-in-reference-too", example=gd_.get("err"))
                else:
                    p.finding("de-error", struct=e["xml"], style=style, err=gd_.get("err"), doc=doc[:600],
                              features=_value_features(m["value"]))
                continue
            if not gd_.get("debug_eq"):
                # reference: compare its own Debug round trip
                if rd_ is not None and rd_.get("de_ok") and not rd_.get("debug_eq"):
                    bump("excluded:debug-mismatch-in-reference-too")
                else:
                    p.finding("debug-mismatch", struct=e["xml"], style=style, expected=(ge.get("fix") or {}).get("debug", "")[:400],
                              actual=gd_.get("debug2", "")[:400], doc=doc[:400], features=_value_features(m["value"]))
                continue
            if gd_.get("ok"):
                rr = set()
                if rd_ is not None and rd_.get("de_ok") and rd_.get("ok"):
                    rr = {dclass(d) for d in diffs_of(rd_["text"], tree)}
                for d in diffs_of(gd_["text"], tree):
                    if dclass(d) in rr or dclass(d) in r_diffs:
                        bump("excluded:reser-" + d["kind"])
                        continue
                    p.finding("reser-infoset", struct=e["xml"], style=style, diff=d, features=_value_features(m["value"]))
        gc = ge.get("check")
        if gc is not None:
            bump("checks_run")
            if not gc["ok"]:
                # every sampled value is schema-valid, so the restriction check must pass
                p.finding("check-spurious", struct=e["xml"], err=gc.get("err"))


def _err_class(e):
    import re
    e = re.sub(r"[^ ]+ is a required field of [^ ]+", "<member> is a required field of <struct>", str(e or ""))
    e = re.sub(r"bad namespace for [^,]+, found .*", "bad namespace for <name>, found <uri>", e)
    return re.sub(r"\d+", "N", e)[:100]


def _value_features(v):
    """Abstract features of a value (signature vocabulary for C04)."""
    feats = set()
    if v[0] != "c":
        return []
    for m, x in zip(gen.flat_members(v[1]), v[2]):
        if m["position"] == "choice":
            feats.add("choice-branch-" + ("present" if x not in (None, []) else "absent"))
        if isinstance(x, list) and len(x) > 1:
            feats.add("repeated>1")
        if isinstance(x, list) and len(x) == 0 and m["repeated"]:
            feats.add("repeated-empty")
        if x is None and m["optional"]:
            feats.add("optional-absent")
        if m["decl_file"] != v[1].file:
            feats.add("foreign-namespace-member")
        if m.get("inherited"):
            feats.add("inherited-member")
        items = x if isinstance(x, list) else ([x] if x is not None else [])
        for it in items:
            if it[0] == "s":
                feats.add("simple-type-member" + ("-derived" if not it[1].base.builtin else ""))
            if it[0] == "c":
                feats.add("nested-struct")
            if it[0] in ("b", "s") and (it[3] if it[0] == "b" else it[2]) == "":
                feats.add("empty-text")
    return sorted(feats)


def sig_c03(f):
    r = f["rule"]
    if r == "ser-error":
        return "C03|ser-error"
    if r == "default-value":
        return f"C03|default-value|kind={f['kind']}"
    if r == "wire":
        d = f["diff"]
        o = d.get("origin")
        pos = "/".join(str(x) for x in o) if isinstance(o, (list, tuple)) else str(o)
        k = d["kind"]
        if k == "not-wellformed":
            return f"C03|not-wellformed|reason={d.get('reason')}"
        if k == "attribute-qualified":
            return "C03|attribute-qname|expected=unqualified|actual=qualified"
        if k in ("element-namespace", "element-local-name"):
            return f"C03|element-qname|part={'ns' if k == 'element-namespace' else 'local'}|member={pos}"
        if k == "lexical":
            return f"C03|lexical|builtin={d.get('builtin')}"
        if k == "attribute-value":
            markup = any(ch in (d.get("expected") or "") for ch in "<>&\"'")
            return f"C03|attribute-value|attribute-type={d.get('builtin') or 'named-simple-type'}|value-has-markup-characters={markup}"
        if k.startswith("attribute-"):
            return f"C03|{k}"
        return f"C03|{k}|member={pos}"
    if r in ("runtime-hang", "runtime-crash"):
        return f"C03|{r}"
    return None


def sig_c04(f):
    import re
    r = f["rule"]
    if r in ("de-error", "fixpoint-de-error"):
        err = f.get("err") or ""
        err = re.sub(r"[^ ]+ is a required field of [^ ]+", "<member> is a required field of <struct>", err)
        err = re.sub(r"bad namespace for [^,]+, found .*", "bad namespace for <name>, found <uri>", err)
        err = re.sub(r"\d+", "N", err)[:80]
        return f"C04|{r}|err={err}"
    if r == "debug-mismatch":
        return "C04|debug-mismatch"
    if r == "reser-infoset":
        d = f["diff"]
        o = d.get("origin")
        pos = "/".join(str(x) for x in o) if isinstance(o, (list, tuple)) else str(o)
        return f"C04|reser-infoset|kind={d['kind']}|member={pos}"
    if r == "fixpoint-differs":
        return "C04|fixpoint-differs"
    if r in ("runtime-hang", "runtime-crash"):
        return f"C04|{r}"
    return None


def _origin(d):
    o = d.get("origin")
    return "/".join(str(x) for x in o) if isinstance(o, (list, tuple)) else str(o)


def sig_c05(f):
    r = f["rule"]
    if r == "generator-rejected":
        # an input of the supported subset that is refused has none of the things this property promises for it
        return f"C05|rejected|variant={f.get('variant')}"
    if r in ("client-missing", "service-name", "address"):
        return f"C05|{r}"
    if r == "method-set":
        return f"C05|method-set|kind={f['kind']}"
    if r == "method-signature":
        return "C05|method-signature"
    if r == "response-type":
        return f"C05|response-type|oneway={f['oneway']}"
    if r == "envelope-shape":
        return f"C05|envelope-shape|direction={f['direction']}|what={f['what'][:60]}"
    if r == "envelope-ser-error":
        return "C05|envelope-ser-error"
    if r == "envelope":
        d = f["diff"]
        path = d.get("path", "")
        part = "header" if "/Header" in path else ("body" if "/Body" in path else "envelope")
        depth = path.count("/")
        where = "part-element" if depth <= 3 else "inside-part"
        return f"C05|envelope|part={part}|where={where}|what={d['kind']}|parts-attr={f['parts_attr']}"
    if r == "response-value":
        return "C05|response-value"
    if r == "error-for-success" and f["scenario"].startswith("ok-exact"):
        return f"C05|call-failed|kind={f.get('kind')}"
    if r == "compile-error" and f.get("operation_code"):
        # the envelope types, functions and methods of the operations themselves do not compile: no operation can be called
        return f"C05|operation-code-does-not-compile|code={f['code']}|site={f['site']}"
    return None


def sig_c16(f):
    r = f["rule"]
    if r == "request-count":
        return f"C16|requests|scenario-class={_scen_class(f)}|{'accepts' if 'accepted' in f.get('what', '') else 'logged'}"
    if r == "http-method":
        return "C16|method"
    if r == "address":
        return "C16|request-target" + ("|host" if str(f.get("actual", "")).startswith("Host:") else "")
    if r == "body-mismatch":
        return "C16|body-mismatch"
    if r == "auth":
        return f"C16|auth|configured={f['configured']}"
    if r == "value-for-failure":
        return f"C16|value-for-failure|scenario={f['scenario']}"
    if r == "response-value":
        return f"C16|returned-value-differs-from-the-reply|scenario={f['scenario']}"
    if r == "error-for-success":
        return f"C16|error-for-success|scenario={f['scenario']}|kind={f.get('kind')}"
    if r in ("call-did-not-complete", "runtime-hang", "runtime-crash"):
        return f"C16|{r}"
    if r == "refused-error-kind":
        return f"C16|connection-refused|result={f.get('result')}|kind={f.get('kind')}"
    return None


def _scen_class(f):
    s = f.get("scenario", "")
    if s.startswith("ok") or s.startswith("20"):
        return "2xx"
    if s[:1] in "45":
        return "4xx-5xx"
    return s


def sig_c18(f):
    r = f["rule"]
    if r == "not-send":
        because = f.get("because") or "?"
        import re as _re
        because = _re.sub(r"(\*const|\*mut|&mut|&)\s*[A-Za-z_][A-Za-z0-9_:<>]*", r"\1 T", because)    # generated type names out
        return f"C18|not-send|what={f['what']}|because={because}"
    if r in ("call-did-not-complete", "runtime-hang"):
        return f"C18|{r}"
    return None


def sig_c07(f):
    r = f["rule"]
    if r == "restr-missed":
        return (f"C07|missed|part={f['part']}|position={f['position']}|optional={f['optional']}|repeated={f['repeated']}"
                f"|facet={f['facet']}|derivation={f['derivation']}")
    if r == "restr-spurious":
        return "C07|spurious"
    if r == "restr-sent-before-check":
        return "C07|sent-before-check"
    if r == "restr-error-kind":
        return f"C07|error-kind|result={f['result']}|kind={f['got_kind']}"
    if r == "restr-valid-not-sent":
        return f"C07|valid-request-not-sent|kind={f.get('kind')}"
    return None


# ------------------------------------------------------------------------------------------------ C10: namespace assignment

def stage_ns(p):
    """Static oracle over the emitted file: (prefix, URI) and (module, URI) assignments are injective both ways, every
    namespace's components sit in one module, and every member prefix is bound, in its struct, to the URI of the schema
    that declared the member."""
    prefix_uri, uri_prefix, module_uri, uri_module = {}, {}, {}, {}
    pairs = 0
    structs = [s for s in p.shape["structs"] if s["module"].split("::")[0] not in refmap.HELPER_MODULES]
    for s in structs:
        ns = s["yaserde"].get("namespaces") or []
        bound = {}
        for pre, uri in ns:
            if uri == "http://schemas.xmlsoap.org/soap/envelope/":
                continue
            pairs += 1
            prefix_uri.setdefault(pre, set()).add(uri)
            uri_prefix.setdefault(uri, set()).add(pre)
            if pre in bound and bound[pre] != uri:
                p.finding("ns", kind="prefix-rebound-in-one-struct", struct=s["name"], prefix=pre)
            bound[pre] = uri
        own = s["yaserde"].get("prefix")
        if s["module"] and own in bound:
            module_uri.setdefault(s["module"], set()).add(bound[own])
            uri_module.setdefault(bound[own], set()).add(s["module"])
        for f in s["fields"]:
            fp = f["yaserde"].get("prefix")
            if fp is None or fp == "soapenv":
                continue
            if fp not in bound:
                p.finding("ns", kind="member-prefix-unbound", struct=s["name"], field=f["name"], prefix=fp)
    for pre, uris in prefix_uri.items():
        if len(uris) > 1:
            p.finding("ns", kind="prefix-shared", prefix=pre, uris=sorted(uris), relation=_uri_relation(sorted(uris)))
    for uri, pres in uri_prefix.items():
        if len(pres) > 1:
            p.finding("ns", kind="uri-two-prefixes", uri=uri, prefixes=sorted(pres))
    for mod, uris in module_uri.items():
        if len(uris) > 1:
            p.finding("ns", kind="module-shared", module=mod, uris=sorted(uris), relation=_uri_relation(sorted(uris)))
    for uri, mods in uri_module.items():
        if len(mods) > 1:
            p.finding("ns", kind="uri-two-modules", uri=uri, modules=sorted(mods))
    seen = {}
    for m in p.shape["modules"]:
        if m["path"].split("::")[0] in refmap.HELPER_MODULES:
            continue
        seen[m["path"]] = seen.get(m["path"], 0) + 1
    for path, n in seen.items():
        if n > 1:
            p.finding("ns", kind="module-duplicate", module=path, times=n)
    # expected declaring namespace of each member (only for structs whose member list matched)
    checked = 0
    for e in p.expected:
        hits = p.located.get(id(e), [])
        if e["members"] is None or len(hits) != 1 or not e.get("shape_ok"):
            continue
        s = hits[0]
        bound = {pre: uri for pre, uri in (s["yaserde"].get("namespaces") or [])}
        for f, m in zip(s["fields"], e["members"]):
            if m["kind"] == "attribute":
                continue
            fp = f["yaserde"].get("prefix")
            checked += 1
            exp_uri = m["decl_uri"] if m["kind"] != "ref" else p.ss.files[m["flat"]["target"].file].uri
            if exp_uri is None:
                continue
            if fp is None:
                p.finding("ns", kind="member-without-prefix", struct=s["name"], field=f["name"])
            elif fp in bound and bound[fp] != exp_uri:
                p.finding("ns", kind="member-prefix-wrong-uri", struct=s["name"], field=f["name"], bound=bound[fp], expected=exp_uri)
    # one module per namespace, as the model sees it
    by_uri = {}
    for e in p.expected:
        hits = p.located.get(id(e), [])
        if len(hits) == 1 and e["uri"] is not None:
            by_uri.setdefault(e["uri"], set()).add(hits[0]["module"])
    for uri, mods in by_uri.items():
        if len(mods) > 1:
            p.finding("ns", kind="namespace-split-over-modules", uri=uri, modules=sorted(mods))
    p.stats["ns_pairs_seen"] = pairs
    p.stats["ns_member_prefixes_checked"] = checked
    p.stats["ns_distinct_uris"] = len(uri_prefix)


def _uri_relation(uris):
    segs = [u.rstrip("/").split("/")[-1].split(":")[-1] for u in uris]
    if len(set(segs)) == 1:
        return "same-last-segment"
    ab = ["".join(c for c in s.split("-")[-1] if c.isalnum())[:3].lower() for s in segs]
    if len(set(ab)) == 1:
        return "same-abbreviation"
    return "other"


def sig_c10(f):
    if f["rule"] == "ns":
        rel = f"|relation={f['relation']}" if "relation" in f else ""
        return f"C10|{f['kind']}{rel}"
    if f["rule"] == "compile-error":
        return f"C10|does-not-compile|code={f['code']}|site={f['site']}"
    if f["rule"] == "wire" and f["diff"]["kind"] in ("not-wellformed", "element-namespace"):
        return f"C10|wire|{f['diff']['kind']}|{f['diff'].get('reason', '')}"
    if f["rule"] in ("struct-missing", "struct-duplicate"):
        # a struct is looked for under the URI of its schema: missing/duplicate there means the namespace assignment is off
        return f"C10|component-not-once-under-its-namespace|{f['rule']}|kind={f['kind']}"
    return None


def sig_c08(f):
    r = f["rule"]
    if r in ("member-missing", "member-extra", "member-order", "member-type") and f.get("derived"):
        if r == "member-missing":
            kind = ("base-missing" if f["inherited"] else "own-missing") + ("-attribute" if f["kind"] == "attribute" else "")
            return f"C08|members|kind={kind}|inherited-depth={min(f['inherited'], 3)}"
        if r == "member-type":
            return f"C08|members|kind=type|inherited-depth={min(f['inherited'], 3)}|expected={f['expected']}|actual={f['actual']}"
        return f"C08|members|kind={r}"
    if r == "wire":
        o = f["diff"].get("origin")
        if isinstance(o, (list, tuple)) and len(o) >= 3 and o[2] == "inherited":
            return f"C08|wire|kind={f['diff']['kind']}|member-namespace={o[1]}"
        if f["diff"]["kind"] == "not-wellformed":
            return f"C08|wire|kind=not-wellformed|{f['diff'].get('reason')}"
    if r == "compile-error":
        return f"C08|does-not-compile|code={f['code']}|site={f['site']}"
    return None


def sig_c09(f):
    r = f["rule"]
    if r == "generator-rejected":
        # an input of the supported subset that is refused has none of the things this property promises for it
        return f"C09|rejected|variant={f.get('variant')}"
    if r == "member-type" and f.get("wrong_struct"):
        via = "ref" if f["kind"] == "ref" else "type"
        return f"C09|bound-to|got=other-struct|via={via}|target-in={'own-file' if f['target_file'] == f['decl_file'] else 'other-file'}"
    if r == "member-type":
        return f"C09|bound-to|got=other-kind|expected={f['expected']}|actual={f['actual']}"
    if r == "member-missing" and f.get("derived") and f["inherited"]:
        return "C09|bound-to|got=wrong-or-no-base|via=base"
    if r == "struct-missing":
        return f"C09|component-missing|kind={f['kind']}"
    if r == "struct-duplicate":
        return f"C09|component-duplicate|kind={f['kind']}"
    if r == "compile-error":
        return f"C09|does-not-compile|code={f['code']}|site={f['site']}"
    if r == "wire" and f["diff"]["kind"] in ("element-namespace", "element-local-name"):
        return f"C09|wire|{f['diff']['kind']}"
    if r == "envelope" and f["diff"]["kind"] in ("element-namespace", "element-local-name", "child-extra-or-renamed"):
        return f"C09|body-or-header-element|{f['diff']['kind']}"
    if r == "envelope-shape":
        return f"C09|part-bound-to-other-element|direction={f['direction']}"
    return None
