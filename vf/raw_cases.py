"""Hand-written inputs that are *not* inside the supported subset because one component cannot be read (it refers to something
that is nowhere to be found), with explicit expectations for everything else: a component that fails must not take the rest
of its schema, or of the schema that referred to it, along. Used by C10 (placement of the readable components)."""
import json
import os

from . import common

XS = 'xmlns:xs="http://www.w3.org/2001/XMLSchema"'
A, B, C = "http://zv.test/raw/orders", "http://zv.test/raw/common", "http://zv.test/raw/third"
DS = "http://www.w3.org/2000/09/xmldsig#"


def _schema(tns, body, extra=""):
    return f'<xs:schema {XS} targetNamespace="{tns}" elementFormDefault="qualified" xmlns:o="{A}" xmlns:c="{B}" xmlns:t="{C}" xmlns:ds="{DS}" {extra}>{body}</xs:schema>'


def _plain(name, member="v"):
    return f'<xs:complexType name="{name}"><xs:sequence><xs:element name="{member}" type="xs:int"/></xs:sequence></xs:complexType>'


# the component that cannot be read: it refers to an element of a namespace that is imported without a location
POISON = (f'<xs:complexType name="Signed"><xs:sequence><xs:element name="id" type="xs:int"/><xs:element ref="ds:Signature"/>'
          f'</xs:sequence></xs:complexType>')
DERIVED = ('<xs:complexType name="SignedOrder"><xs:complexContent><xs:extension base="c:Signed"><xs:sequence><xs:element name="n" type="xs:int"/>'
           '</xs:sequence></xs:extension></xs:complexContent></xs:complexType>')
REFUSER = ('<xs:complexType name="Holder"><xs:sequence><xs:element ref="c:SignedEl"/><xs:element name="m" type="xs:int"/></xs:sequence></xs:complexType>')
POISON_EL = ('<xs:element name="SignedEl"><xs:complexType><xs:sequence><xs:element ref="ds:Signature"/></xs:sequence></xs:complexType></xs:element>')


def _wsdl(schemas):
    return (f'<?xml version="1.0"?><wsdl:definitions xmlns:wsdl="http://schemas.xmlsoap.org/wsdl/" xmlns:soap="http://schemas.xmlsoap.org/wsdl/soap/" '
            f'{XS} xmlns:w="http://zv.test/raw/wsdl" xmlns:o="{A}" targetNamespace="http://zv.test/raw/wsdl"><wsdl:types>' + "".join(schemas) +
            '</wsdl:types><wsdl:message name="In"><wsdl:part name="p" element="o:Place"/></wsdl:message>'
            '<wsdl:portType name="PT"><wsdl:operation name="Place"><wsdl:input message="w:In"/></wsdl:operation></wsdl:portType>'
            '<wsdl:binding name="B" type="w:PT"><soap:binding style="document" transport="http://schemas.xmlsoap.org/soap/http"/>'
            '<wsdl:operation name="Place"><soap:operation soapAction="urn:place"/><wsdl:input><soap:body use="literal"/></wsdl:input></wsdl:operation></wsdl:binding>'
            '<wsdl:service name="S"><wsdl:port name="P" binding="w:B"><soap:address location="http://127.0.0.1:9/s"/></wsdl:port></wsdl:service></wsdl:definitions>')


PLACE = '<xs:element name="Place"><xs:complexType><xs:sequence><xs:element name="q" type="xs:int"/></xs:sequence></xs:complexType></xs:element>'


def cases():
    """[(label, files, start, {struct name: namespace URI it must sit under}, [struct names that may be missing])]"""
    out = []
    imp_ds = f'<xs:import namespace="{DS}"/>'
    for how, user in (("base", DERIVED), ("ref", REFUSER)):
        poison = POISON if how == "base" else POISON_EL
        a_body = f'<xs:import namespace="{B}"/>' + _plain("Before") + user + _plain("After") + PLACE + _plain("Last")
        b_body = imp_ds + _plain("Early") + poison + _plain("Late")
        expect = {"Before": A, "After": A, "Last": A, "Place": A, "Early": B, "Late": B}
        maybe = ["Signed", "SignedOrder", "Holder", "SignedEl"]
        # several inline schemas, the referring schema first / last
        out.append((f"inline-schemas:{how}:referrer-first", {"s.wsdl": _wsdl([_schema(A, a_body), _schema(B, b_body)])}, "s.wsdl", expect, maybe))
        out.append((f"inline-schemas:{how}:referrer-last", {"s.wsdl": _wsdl([_schema(B, b_body), _schema(A, a_body)])}, "s.wsdl", expect, maybe))
        # sibling files: the importing file goes on after an import whose file holds the unreadable component
        a_file = _schema(A, a_body.replace(f'<xs:import namespace="{B}"/>', f'<xs:import namespace="{B}" schemaLocation="b.xsd"/>'))
        out.append((f"sibling-files:{how}", {"a.xsd": a_file, "b.xsd": _schema(B, b_body)}, "a.xsd", {k: v for k, v in expect.items()}, maybe))
        # a forward reference inside one schema to a component that cannot be read
        one = imp_ds + _plain("Before") + user.replace("c:", "o:") + _plain("After") + poison + _plain("Last")
        out.append((f"one-schema-forward:{how}", {"a.xsd": _schema(A, one)}, "a.xsd", {"Before": A, "After": A, "Last": A}, maybe))
    return out


def run(v, prop, root):
    """Generate each case with the library (zdrive), read the emitted text with rsdump, compare placement. Adds violations to v;
    returns coverage numbers."""
    zdrive = common.build_tool("zdrive")
    rsdump = common.build_tool("rsdump")
    stats = {"raw_cases": 0, "raw_structs_checked": 0, "raw_cases_refused": 0}
    for k, (label, files, start, expect, maybe) in enumerate(cases()):
        d = os.path.join(root, f"raw{k}")
        os.makedirs(d, exist_ok=True)
        emitted = os.path.join(d, "emitted.rs")
        w = common.ZWorker(zdrive)
        try:
            res = w.run({"id": k, "op": "gen", "files": files, "start": start, "bytes_path": emitted, "cpu_budget_s": 30}, wall_timeout=120)
        finally:
            w.close()
        stats["raw_cases"] += 1
        replay = {"in/" + n: t for n, t in files.items()}
        replay["start.txt"] = start
        if "calls" not in res:
            v.violation(f"{prop}|unreadable-component|effect=generator-died", {"case": label}, replay)
            continue
        call = res["calls"][0]
        if call["outcome"] == "panic":
            v.violation(f"{prop}|unreadable-component|effect=panic", {"case": label, "panic": call.get("panic")}, replay)
            continue
        if call["outcome"] != "ok":
            stats["raw_cases_refused"] += 1      # refusing the whole input is an answer, too
            continue
        try:
            shape = json.loads(common.run([rsdump, "--census", emitted], timeout=120).stdout.decode())
        except Exception:   # noqa: BLE001
            continue
        if not shape.get("ok"):
            v.violation(f"{prop}|unreadable-component|effect=output-does-not-parse", {"case": label, "error": shape.get("error")}, replay)
            continue
        replay["emitted.rs"] = open(emitted, encoding="utf-8", errors="replace").read()
        for name, uri in expect.items():
            hits = [s for s in shape["structs"] if s["name"] == name]
            stats["raw_structs_checked"] += 1
            under = [s for s in hits if any(p[0] == s["yaserde"].get("prefix") and p[1] == uri for p in (s["yaserde"].get("namespaces") or []))]
            if len(hits) != 1 or len(under) != 1:
                where = "missing" if not hits else ("duplicate" if len(hits) > 1 else "under-another-namespace")
                v.violation(f"{prop}|unreadable-component|effect=readable-component-{where}|how={label.split(':')[1] if ':' in label else '?'}",
                            {"case": label, "struct": name, "expected_namespace": uri,
                             "found": [{"module": s["module"], "namespaces": s["yaserde"].get("namespaces")} for s in hits]}, replay)
    return stats
