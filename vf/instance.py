"""Independent instance renderer and infoset comparison.

expected_tree(ss, value, root_qname) builds the infoset a schema-conformant serialization of an abstract value must
have; render(tree, style) writes it as XML text in one of several prefix styles; parse(text) reads any XML text into
the same tree form with expat (namespace processing on); compare(expected, actual) reports differences."""
import xml.parsers.expat
from xml.sax.saxutils import escape, quoteattr

from .gen import flat_members
from .model import BUILTINS
from .sample import f32

STYLES = ["root-prefixes", "fresh-prefixes", "default-namespace", "pushed-down", "pretty"]


class Node:
    __slots__ = ("uri", "local", "attrs", "children", "text", "builtin", "origin")

    def __init__(self, uri, local, attrs=None, children=None, text=None, builtin=None, origin=None):
        self.uri, self.local = uri, local
        self.attrs = attrs or []          # [(name, text, builtin)]  — unqualified attributes
        self.children = children          # list of Node, or None for simple content
        self.text = text
        self.builtin = builtin
        self.origin = origin              # (position, decl relation) for signatures


def leaf_text(v):
    if v[0] == "b":
        return v[3], v[1]
    if v[0] == "s":
        return v[2], None
    raise ValueError(v[0])


def expected_tree(ss, value, root_qname):
    """value = ('c', comp, member values); root_qname = (uri, local)."""
    _, comp, vals = value
    node = Node(root_qname[0], root_qname[1], [], [])
    for m, x in zip(flat_members(comp), vals):
        decl_uri = ss.files[m["decl_file"]].uri
        if m["kind"] == "attribute":
            if x is None:
                continue
            text, b = leaf_text(x)
            node.attrs.append((m["name"].xml, text, b))
            continue
        items = x if isinstance(x, list) else ([] if x is None else [x])
        rel = "own-ns" if m["decl_file"] == comp.file else "foreign-ns"
        origin = (m["position"], rel, "inherited" if m.get("inherited") else "own", m["kind"])
        for it in items:
            if it[0] == "c":
                child = expected_tree(ss, it, (decl_uri, m["name"].xml))
                child.origin = origin
            else:
                text, b = leaf_text(it)
                child = Node(decl_uri, m["name"].xml, [], None, text, b, origin)
            node.children.append(child)
    return node


# ------------------------------------------------------------------------------------------------- rendering

def render(tree, style, r=None):
    uris = []

    def collect(n):
        if n.uri is not None and n.uri not in uris:
            uris.append(n.uri)
        for c in n.children or []:
            collect(c)
    collect(tree)
    if style == "fresh-prefixes" and r is not None:
        pool = ["a", "b", "zz", "ns0", "tns", "x1", "soap", "xs", "p", "q-r", "_u"]
        names = r.sample(pool, len(uris)) if len(uris) <= len(pool) else r.sample(pool + [f"w{i}" for i in range(len(uris))], len(uris))
    else:
        names = [f"n{i}" for i in range(len(uris))]
    pfx = dict(zip(uris, names))
    pretty = style == "pretty"
    out = []
    if pretty:
        out.append('<?xml version="1.0" encoding="UTF-8"?>\n<!-- rendered by the instance generator -->\n')

    def attrs_text(n):
        return "".join(f" {a}={quoteattr(t)}" for a, t, _ in n.attrs)

    def emit(n, depth, declared, default_ns):
        ind = ("\n" + "  " * depth) if pretty and depth else ""
        decl = ""
        if style == "default-namespace":
            name = n.local
            if n.uri != default_ns:
                decl = f' xmlns={quoteattr(n.uri or "")}'
                default_ns = n.uri
        elif style == "pushed-down":
            if n.uri is None:
                name = n.local
            else:
                name = f"{pfx[n.uri]}:{n.local}"
                if n.uri not in declared:
                    decl = f" xmlns:{pfx[n.uri]}={quoteattr(n.uri)}"
                    declared = declared | {n.uri}
        else:
            name = n.local if n.uri is None else f"{pfx[n.uri]}:{n.local}"
            if depth == 0:
                decl = "".join(f" xmlns:{p}={quoteattr(u)}" for u, p in pfx.items())
        out.append(f"{ind}<{name}{decl}{attrs_text(n)}")
        if n.children is None:
            out.append(f">{escape(n.text)}</{name}>")
        elif not n.children:
            out.append(f"></{name}>" if not pretty else "/>")
        else:
            out.append(">")
            for c in n.children:
                emit(c, depth + 1, declared, default_ns)
            out.append((("\n" + "  " * depth) if pretty else "") + f"</{name}>")

    emit(tree, 0, frozenset(), None)
    return "".join(out)


# ------------------------------------------------------------------------------------------------- parsing

class ParseError(Exception):
    pass


def parse(text):
    """XML text → Node tree (namespace-aware). Raises ParseError with a reason class for text that is not
    namespace-well-formed."""
    p = xml.parsers.expat.ParserCreate(namespace_separator=" ")
    p.ordered_attributes = True
    stack = []
    root = []

    def split(q):
        if " " in q:
            u, l = q.split(" ", 1)
            return u, l
        return None, q

    def start(name, attrs):
        u, l = split(name)
        n = Node(u, l, [], [])
        n.text = ""
        for i in range(0, len(attrs), 2):
            au, al = split(attrs[i])
            n.attrs.append(((au, al), attrs[i + 1], None))
        if stack:
            stack[-1].children.append(n)
        else:
            root.append(n)
        stack.append(n)

    def end(_name):
        n = stack.pop()
        if n.children:
            n.text = None if (n.text or "").strip() == "" else n.text
        else:
            n.children = None

    def chars(data):
        if stack:
            stack[-1].text = (stack[-1].text or "") + data

    p.StartElementHandler = start
    p.EndElementHandler = end
    p.CharacterDataHandler = chars
    try:
        p.Parse(text.encode("utf-8") if isinstance(text, str) else text, True)
    except xml.parsers.expat.ExpatError as e:
        msg = str(e)
        cls = "unbound-prefix" if "unbound prefix" in msg else ("duplicate-attribute" if "duplicate attribute" in msg else "not-well-formed")
        raise ParseError(cls + ": " + msg)
    return root[0]


# ------------------------------------------------------------------------------------------------- comparison

def same_value(expected, actual, builtin):
    """Does the lexical form `actual` denote the same value as `expected` for the builtin (None = exact text)?"""
    if builtin is None:
        return expected == actual
    carrier = BUILTINS.get(builtin)
    if carrier is None:
        return expected == actual
    if carrier[0] in "iu":
        try:
            return int(actual.strip()) == int(expected) and actual.strip().lstrip("+-").isdigit()
        except ValueError:
            return False
    if carrier in ("f32", "f64"):
        try:
            a, e = float(actual.strip()), float(expected)
        except ValueError:
            return False
        if carrier == "f32":
            return f32(a) == f32(e)
        return a == e
    if carrier == "bool":
        return {"true": True, "1": True, "false": False, "0": False}.get(actual.strip()) == (expected == "true")
    return expected == actual


def compare(exp, act, path="", out=None):
    """List of difference records {kind, path, …}; empty = same infoset."""
    if out is None:
        out = []
    here = f"{path}/{exp.local}"
    if exp.local != act.local:
        out.append({"kind": "element-local-name", "path": here, "expected": exp.local, "actual": act.local, "origin": exp.origin})
        return out
    if exp.uri != act.uri and exp.origin != "root-unconstrained":
        out.append({"kind": "element-namespace", "path": here, "expected": exp.uri, "actual": act.uri, "origin": exp.origin})
    ea = {a: (t, b) for a, t, b in exp.attrs}
    aa = {}
    for (au, al), t, _ in act.attrs:
        if au is not None:
            out.append({"kind": "attribute-qualified", "path": here, "attribute": al, "namespace": au,
                        "declared": al in ea})
            aa.setdefault(al, t)
        else:
            aa[al] = t
    for a, (t, b) in ea.items():
        if a not in aa:
            out.append({"kind": "attribute-missing", "path": here, "attribute": a})
        elif not same_value(t, aa[a], b):
            out.append({"kind": "attribute-value", "path": here, "attribute": a, "expected": t, "actual": aa[a], "builtin": b})
    for a in aa:
        if a not in ea:
            out.append({"kind": "attribute-extra", "path": here, "attribute": a})
    if exp.children is None:
        if act.children:
            out.append({"kind": "unexpected-children", "path": here})
        else:
            at = act.text or ""
            if not same_value(exp.text, at, exp.builtin):
                out.append({"kind": "lexical", "path": here, "expected": exp.text, "actual": at, "builtin": exp.builtin, "origin": exp.origin})
        return out
    ac = act.children or []
    if act.children is None and (act.text or "").strip():
        out.append({"kind": "unexpected-text", "path": here, "text": act.text[:40]})
    if [c.local for c in exp.children] != [c.local for c in ac]:
        en, an = [c.local for c in exp.children], [c.local for c in ac]
        kind = "child-order" if sorted(en) == sorted(an) else ("child-missing" if len(an) < len(en) else "child-extra-or-renamed")
        missing = [c for c in exp.children if c.local not in an]
        out.append({"kind": kind, "path": here, "expected": en, "actual": an,
                    "origin": missing[0].origin if missing else None})
        return out
    for e, a in zip(exp.children, ac):
        compare(e, a, here, out)
    return out
