"""Hand-built mini schema sets that contain exactly one quarantined feature each: they re-confirm an open finding on every
run (and show when it has disappeared), while ordinary generated programs avoid the feature."""
from .model import (Attr, ComplexType, Content, ElementRef, Facets, GlobalElement, Group, LocalElement, Name, SchemaFile, SchemaSet,
                    SimpleType, TypeRef)


def _file(idx, uri, prefixes, imports=()):
    f = SchemaFile(idx, uri, f"f{idx}.xsd")
    f.prefixes = dict(prefixes)
    f.imports = list(imports)
    return f


def N(*words, style="pascal"):
    return Name(tuple(words), style)


def cycle_back_reference(r=None):
    """f0 imports f1 and f1 imports f0; f1's type extends a type of f0, i.e. of the file that is still being read."""
    f0 = _file(0, "http://zv.test/mini/first", {0: "a", 1: "b"}, [1])
    f1 = _file(1, "http://zv.test/mini/second", {1: "b", 0: "a"}, [0])
    base = ComplexType(N("base", "record"), Content(Group("sequence", 1, 1, [LocalElement(N("id"), TypeRef("int"))]), []), file=0)
    user = ComplexType(N("holder"), Content(Group("sequence", 1, 1, []), []), file=0)
    derived = ComplexType(N("derived", "record"), Content(Group("sequence", 1, 1, [LocalElement(N("extra"), TypeRef("string"))]), []),
                          base=TypeRef(base.name.xml, 0, base), file=1)
    user.content.group.items.append(LocalElement(N("item"), TypeRef(derived.name.xml, 1, derived)))
    f0.components = [base, user]
    f1.components = [derived]
    return SchemaSet([f0, f1], "f0.xsd", None, {"cycle-back-reference", "import-cycle"})


def element_type_name_clash(r=None):
    """A complex type and an anonymous-typed global element with the same name in one namespace (separate symbol
    spaces in XSD, one item namespace in a Rust module)."""
    f0 = _file(0, "http://zv.test/mini/clash", {0: "t"})
    ty = ComplexType(N("order"), Content(Group("sequence", 1, 1, [LocalElement(N("id"), TypeRef("int"))]), []), file=0)
    el = GlobalElement(N("order"), content=Content(Group("sequence", 1, 1, [LocalElement(N("note"), TypeRef("string"))]), []), file=0)
    f0.components = [ty, el]
    return SchemaSet([f0], "f0.xsd", None, {"element-type-name-clash"})


MINIS = {"cycle_back_reference": cycle_back_reference, "element_type_name_clash": element_type_name_clash}
