"""Hand-built mini schema sets that contain exactly one quarantined feature each: they re-confirm an open finding on every
run (and show when it has disappeared), while ordinary generated programs avoid the feature."""
from .model import (Attr, ComplexType, Content, ElementRef, Facets, GlobalElement, Group, LocalElement, Message, Name, Operation, Part,
                    SchemaFile, SchemaSet, SimpleType, TypeRef, Wsdl)


def _file(idx, uri, prefixes, imports=()):
    f = SchemaFile(idx, uri, f"f{idx}.xsd")
    f.prefixes = dict(prefixes)
    f.imports = list(imports)
    return f


def N(*words, style="pascal"):
    return Name(tuple(words), style)


def cycle_back_reference(r=None):
    """f0 imports f1 and f1 imports f0; f1's type extends a type of f0, i.e. of the file that is still being read."""
    f0 = _file(0, "http://zv.test/mini/first", {0: "a", 1: "b"}, [1])
    f1 = _file(1, "http://zv.test/mini/second", {1: "b", 0: "a"}, [0])
    base = ComplexType(N("base", "record"), Content(Group("sequence", 1, 1, [LocalElement(N("id"), TypeRef("int"))]), []), file=0)
    user = ComplexType(N("holder"), Content(Group("sequence", 1, 1, []), []), file=0)
    derived = ComplexType(N("derived", "record"), Content(Group("sequence", 1, 1, [LocalElement(N("extra"), TypeRef("string"))]), []),
                          base=TypeRef(base.name.xml, 0, base), file=1)
    user.content.group.items.append(LocalElement(N("item"), TypeRef(derived.name.xml, 1, derived)))
    f0.components = [base, user]
    f1.components = [derived]
    return SchemaSet([f0, f1], "f0.xsd", None, {"cycle-back-reference", "import-cycle"})


def element_type_name_clash(r=None):
    """A complex type and an anonymous-typed global element with the same name in one namespace (separate symbol
    spaces in XSD, one item namespace in a Rust module)."""
    f0 = _file(0, "http://zv.test/mini/clash", {0: "t"})
    ty = ComplexType(N("order"), Content(Group("sequence", 1, 1, [LocalElement(N("id"), TypeRef("int"))]), []), file=0)
    el = GlobalElement(N("order"), content=Content(Group("sequence", 1, 1, [LocalElement(N("note"), TypeRef("string"))]), []), file=0)
    f0.components = [ty, el]
    return SchemaSet([f0], "f0.xsd", None, {"element-type-name-clash"})


MINIS = {"cycle_back_reference": cycle_back_reference, "element_type_name_clash": element_type_name_clash}


def occurrence_table(r=None):
    """Deterministic table program for C02: every mapped builtin (and a simple and a complex user type of another file) x
    {minOccurs 0,1} x {maxOccurs 1, 3, unbounded} x position {top-level sequence, nested sequence, choice branch, sequence with
    minOccurs=0, sequence with maxOccurs=unbounded}; attributes x {optional, required}."""
    from .model import BUILTINS
    f0 = _file(0, "http://zv.test/table/main", {0: "m", 1: "o"}, [1])
    f1 = _file(1, "http://zv.test/table/other", {1: "o"})
    code = SimpleType(N("code"), TypeRef("string"), Facets(max_length=10), None, 1)
    rec = ComplexType(N("rec"), Content(Group("sequence", 1, 1, [LocalElement(N("id"), TypeRef("int"))]), []), file=1)
    f1.components = [code, rec]
    targets = [TypeRef(b) for b in BUILTINS] + [TypeRef(code.name.xml, 1, code), TypeRef(rec.name.xml, 1, rec)]
    comps = []
    for pos in ("seq", "nested", "choice", "seqopt", "seqrep"):
        for mn in (0, 1):
            for mx in (1, 3, 10**25, "unbounded"):
                leaves = []
                for t in targets:
                    nm = N("mem", t.name.lower().replace(".", "").replace("64", "sixfour"))
                    leaves.append(LocalElement(nm, t, mn, mx))
                if pos == "seq":
                    g = Group("sequence", 1, 1, leaves)
                elif pos == "nested":
                    g = Group("sequence", 1, 1, [LocalElement(N("first"), TypeRef("string")), Group("sequence", 1, 1, leaves),
                                               LocalElement(N("last"), TypeRef("string"))])
                elif pos == "choice":
                    g = Group("sequence", 1, 1, [Group("choice", 1, 1, leaves), LocalElement(N("last"), TypeRef("string"))])
                elif pos == "seqopt":
                    g = Group("sequence", 0, 1, leaves)
                else:
                    g = Group("sequence", 1, "unbounded", leaves)
                comps.append(ComplexType(N("tab", pos, "min" + ("zero" if mn == 0 else "one"), "max" + {1: "one", 3: "three", 10**25: "huge", "unbounded": "many"}[mx]),
                                         Content(g, []), file=0))
    attrs = []
    for t in targets[:-1]:
        for req in (False, True):
            attrs.append(Attr(N("att", t.name.lower().replace(".", "").replace("64", "sixfour"), "req" if req else "opt"), t, req))
    comps.append(ComplexType(N("tab", "attributes"), Content(Group("sequence", 1, 1, []), attrs), file=0))
    f0.components = comps
    return SchemaSet([f0, f1], "f0.xsd", None, {"table-program", "choice", "nested-seq-followed", "occurs-n", "enclosing-occurs",
                                                "attributes", "member-type-foreign"})


def order_family(perm, default_ns=False, two_files=False):
    """One small schema whose eight components refer to each other in every way (member type, ref=, base=, an element named
    like its type, a two-step extension chain, an anonymous-typed element), written in the declaration order `perm` (a
    permutation of range(8)). The *content* is the same for every permutation, so the expected Rust shapes are, too: only the
    order in which the reader meets declarations and references changes. `default_ns`: own references carry no prefix;
    `two_files`: the same components again in a second file (twin layout) that is imported."""
    def build(idx, uri, pfx):
        f = _file(idx, uri, {idx: pfx})
        own = lambda c: TypeRef(c.name.xml, idx, c)     # noqa: E731
        code = SimpleType(N("code"), TypeRef("string"), Facets(max_length=8), None, idx)
        # an own type that is called like a built-in one: `tns:date` (or `date` under a default namespace) is this type
        date = SimpleType(Name(("date",), "snake"), TypeRef("string"), Facets(enumeration=["today", "never"]), None, idx)
        node = ComplexType(N("node"), Content(Group("sequence", 1, 1, [LocalElement(N("inh"), TypeRef("string")),
                                                                       LocalElement(N("mark"), own(code), 0, 1),
                                                                       LocalElement(N("when"), own(date), 0, 1)]),
                                              [Attr(N("rev"), TypeRef("int"), False)]), file=idx)
        node_el = GlobalElement(N("node"), type=own(node), file=idx)
        derived = ComplexType(N("derived"), Content(Group("sequence", 1, 1, [LocalElement(N("own"), TypeRef("int"))]),
                                                    # the second attribute is called like an element the type inherits
                                                    [Attr(N("flag"), TypeRef("boolean"), False), Attr(N("inh"), TypeRef("string"), False)]),
                              base=own(node), file=idx)
        # second step of the chain: adds an attribute only, with no sequence inside the extension
        leaf = ComplexType(N("leaf"), Content(None, [Attr(N("leafy"), TypeRef("string"), False)]), base=own(derived), file=idx)
        user = ComplexType(N("user"), Content(Group("sequence", 1, 1, [ElementRef(own(node_el)), LocalElement(N("n"), own(node), 0, 3),
                                                                       LocalElement(N("d"), own(derived), 0, 1),
                                                                       LocalElement(N("l"), own(leaf), 0, 1)]), []), file=idx)
        wrapper = GlobalElement(N("wrapper"), content=Content(Group("sequence", 1, 1, [ElementRef(own(node_el), 0, 1),
                                                                                       LocalElement(N("extra"), own(code)),
                                                                                       # ... and a member whose own name is what a
                                                                                       # numbered second `extra` might be called
                                                                                       LocalElement(N("extra", "2"), TypeRef("int"), 0, 1),
                                                                                       # the same with a keyword: type, type_2 and an
                                                                                       # attribute type (r#type_2 is the identifier type_2)
                                                                                       LocalElement(Name(("type",), "snake"), TypeRef("string"), 0, 1),
                                                                                       LocalElement(Name(("type", "2"), "snake"), TypeRef("int"), 0, 1)]),
                                                       # attributes called like one of the elements
                                                       [Attr(N("extra"), TypeRef("string"), False), Attr(Name(("type",), "snake"), TypeRef("string"), False)]), file=idx)
        comps = [code, node, node_el, derived, leaf, user, wrapper, date]
        f.components = [comps[i] for i in perm]
        return f
    f0 = build(0, "http://zv.test/order/main", "" if default_ns else "tns")
    files = [f0]
    start = "f0.xsd"
    if two_files and two_files != "mutual":
        # f0 and f1 are twins (same layout, neither imports anything); a third file is the start file and imports both
        f1 = build(1, "http://zv.test/order/twin", "" if default_ns else "tns")
        f2 = _file(2, "http://zv.test/order/start", {2: "st", 0: "ma", 1: "tw"}, [0, 1] if perm[0] % 2 else [1, 0])
        # a chain into another namespace whose inherited members start with an attribute: flags (attributes only) <- stamped
        # (adds an element) in the twin file (after the permuted components, so that the twins keep one layout up to there),
        # <- cross (adds its own element) in the start file
        flags = ComplexType(N("flags"), Content(None, [Attr(N("active"), TypeRef("boolean"), False), Attr(N("level"), TypeRef("int"), True)]), file=1)
        stamped = ComplexType(N("stamped"), Content(Group("sequence", 1, 1, [LocalElement(N("stamp"), TypeRef("string"))]), []),
                              base=TypeRef(flags.name.xml, 1, flags), file=1)
        f1.components += [stamped, flags] if perm[1] % 2 else [flags, stamped]
        cross = ComplexType(N("cross"), Content(Group("sequence", 1, 1, [LocalElement(N("local"), TypeRef("int"), 0, 1)]), []),
                            base=TypeRef(stamped.name.xml, 1, stamped), file=2)
        n0 = next(c for c in f0.components if c.kind == "complex" and c.name.xml == "Node")
        n1 = next(c for c in f1.components if c.kind == "complex" and c.name.xml == "Node")
        e0 = next(c for c in f0.components if c.kind == "gelement" and c.name.xml == n0.name.xml)
        e1 = next(c for c in f1.components if c.kind == "gelement" and c.name.xml == n1.name.xml)
        # `both` has members of three namespaces: its own (first, second) and, by ref=, one of each twin's
        # a type of the start file that is called like the twins' `Node` and has a member of that other Node (not of its own type)
        node2 = ComplexType(N("node"), Content(Group("sequence", 1, 1, [LocalElement(N("theirs"), TypeRef(n0.name.xml, 0, n0), 0, 1),
                                                                        LocalElement(N("twin", "s"), TypeRef(n1.name.xml, 1, n1)),
                                                                        LocalElement(N("mine"), TypeRef("int"))]), []), file=2)
        both = ComplexType(N("both"), Content(Group("sequence", 1, 1, [LocalElement(N("first"), TypeRef(n0.name.xml, 0, n0), 0, 1),
                                                                       LocalElement(N("second"), TypeRef(n1.name.xml, 1, n1), 0, 1),
                                                                       ElementRef(TypeRef(e1.name.xml, 1, e1), 0, 1),
                                                                       ElementRef(TypeRef(e0.name.xml, 0, e0), 0, 2)]), []), file=2)
        f2.components = [cross, both, node2] if perm[2] % 2 else [node2, both, cross]
        files += [f1, f2]
        start = "f2.xsd"
    if two_files == "mutual":
        # the twins import each other (both start with exactly one import, so their layouts stay the same) and the first one is
        # the start file: what the imported twin resolved on demand must not leak into the importing one
        f0m = build(0, "http://zv.test/order/main", "" if default_ns else "tns")
        f1m = build(1, "http://zv.test/order/twin", "" if default_ns else "tns")
        f0m.imports, f1m.imports = [1], [0]
        f0m.prefixes[1], f1m.prefixes[0] = "tw", "ma"
        files, start = [f0m, f1m], "f0.xsd"
    feats = {"order-family", "extension", "element-ref", "element-named-like-its-type", "attributes", "extension-attributes"}
    if default_ns:
        feats.add("own-namespace-as-default")
    if two_files:
        feats.add("twin-file")
    return SchemaSet(files, start, None, feats)


def mutual_inline_family():
    """One WSDL, two inline schemas that refer to each other: Invoice (schema 1) extends / refers to Document (schema 2), which
    extends / refers to Party (schema 1). All orders of the two schemas and of Invoice and Party inside schema 1, by base= and by
    ref=: whichever component is read ahead of its turn must find what it refers to, wherever in the document that is."""
    out = []
    for via in ("base", "ref"):
        for schema_order in ((0, 1), (1, 0)):
            for invoice_first in (True, False):
                f0 = _file(0, "http://zv.test/mutual/orders", {0: "ord", 1: "doc"}, [1])
                f1 = _file(1, "http://zv.test/mutual/documents", {1: "doc", 0: "ord"}, [0])
                f0.filename = "service.wsdl"
                party = ComplexType(N("party"), Content(Group("sequence", 1, 1, [LocalElement(N("name"), TypeRef("string"))]),
                                                        [Attr(N("code"), TypeRef("int"), False)]), file=0)
                party_el = GlobalElement(N("party", "entry"), content=Content(Group("sequence", 1, 1, [LocalElement(N("who"), TypeRef("string"))]), []), file=0)
                if via == "base":
                    document = ComplexType(N("document"), Content(Group("sequence", 1, 1, [LocalElement(N("id"), TypeRef("long"))]), []),
                                           base=TypeRef(party.name.xml, 0, party), file=1)
                    invoice = ComplexType(N("invoice"), Content(Group("sequence", 1, 1, [LocalElement(N("amount"), TypeRef("decimal"))]), []),
                                          base=TypeRef(document.name.xml, 1, document), file=0)
                    f1.components = [document]
                else:
                    document_el = GlobalElement(N("document", "entry"), content=Content(Group("sequence", 1, 1, [
                        ElementRef(TypeRef(party_el.name.xml, 0, party_el)), LocalElement(N("id"), TypeRef("long"))]), []), file=1)
                    invoice = ComplexType(N("invoice"), Content(Group("sequence", 1, 1, [
                        ElementRef(TypeRef(document_el.name.xml, 1, document_el)), LocalElement(N("amount"), TypeRef("decimal"))]), []), file=0)
                    f1.components = [document_el]
                submit = GlobalElement(N("submit"), content=Content(Group("sequence", 1, 1, [LocalElement(N("invoice"), TypeRef(invoice.name.xml, 0, invoice))]), []), file=0)
                tail = [party, party_el]
                f0.components = ([invoice] + tail if invoice_first else tail + [invoice]) + [submit]
                m_in = Message(N("submit", "in"), [Part(N("parameters"), TypeRef(submit.name.xml, 0, submit))])
                op = Operation(N("submit"), m_in, None, [], [], N("parameters"), None)
                op.in_parts_attr = False
                op.soap_action = "http://zv.test/mutual/actions/Submit"
                w = Wsdl("http://zv.test/mutual/wsdl", N("mutual"), N("mutual", "port"), N("mutual", "port", "type"), N("mutual", "binding"), [op],
                         "http://127.0.0.1:9/mutual")
                w.share_prefix = False
                ss = SchemaSet([f0, f1], "service.wsdl", w, {"mutual-inline-schemas", "several-inline-schemas", "wsdl", "extension" if via == "base" else "element-ref",
                                                            "one-way", "wsdl-namespace-differs-from-inline-schema"})
                ss.inline_all = True
                ss.inline_order = list(schema_order)
                out.append((f"mutual-inline:{via}:schemas={schema_order[0]}{schema_order[1]}:{'invoice-first' if invoice_first else 'invoice-last'}", ss))
    return out


def order_family_programs(r, n):
    """n members of the family: random permutations, the variants cycling."""
    out = []
    for k in range(n):
        perm = list(range(8))
        r.shuffle(perm)
        dn = bool(k & 1)
        tf = [False, True, "mutual", False][(k >> 1) & 3]
        out.append(("order:" + "".join(map(str, perm)) + ("+default-ns" if dn else "") + ("+twin" if tf is True else ("+mutual-twin" if tf else "")),
                    order_family(perm, dn, tf)))
    return out


def split_namespace_family():
    """One namespace spread over two files that the start file imports with another namespace's file in between (and, second
    member, one after the other): common-a, payment, common-b. Everything of both files belongs into the one module of the
    namespace, whatever was read in between."""
    out = []
    for label, order in (("apart", [1, 2, 3]), ("adjacent", [1, 3, 2]), ("apart-second-first", [3, 2, 1])):
        f0 = _file(0, "http://zv.test/split/orders", {0: "ord", 1: "com", 2: "pay", 3: "com"}, order)
        f1 = _file(1, "http://zv.test/split/common", {1: "com"})
        f2 = _file(2, "http://zv.test/split/payment", {2: "pay", 1: "com"}, [1])
        f3 = _file(3, "http://zv.test/split/common", {3: "com"})
        base = ComplexType(N("base", "record"), Content(Group("sequence", 1, 1, [LocalElement(N("id"), TypeRef("long"))]),
                                                        [Attr(N("rev"), TypeRef("int"), False)]), file=1)
        code = SimpleType(N("code"), TypeRef("string"), Facets(max_length=6), None, 1)
        f1.components = [base, code]
        card = ComplexType(N("card"), Content(Group("sequence", 1, 1, [LocalElement(N("holder"), TypeRef("string")),
                                                                       LocalElement(N("kind"), TypeRef(code.name.xml, 1, code), 0, 1)]), []),
                           base=TypeRef(base.name.xml, 1, base), file=2)
        f2.components = [card]
        address = ComplexType(N("address"), Content(Group("sequence", 1, 1, [LocalElement(N("street"), TypeRef("string")),
                                                                             LocalElement(N("zip"), TypeRef("string"), 0, 1)]), []), file=3)
        place = GlobalElement(N("place"), type=TypeRef(address.name.xml, 3, address), file=3)
        f3.components = [address, place]
        order_t = ComplexType(N("order"), Content(Group("sequence", 1, 1, [
            LocalElement(N("ship", "to"), TypeRef(address.name.xml, 3, address)),
            LocalElement(N("paid", "by"), TypeRef(card.name.xml, 2, card), 0, 1),
            LocalElement(N("head"), TypeRef(base.name.xml, 1, base), 0, 1),
            ElementRef(TypeRef(place.name.xml, 3, place), 0, 3)]), []), file=0)
        f0.components = [order_t, GlobalElement(N("order", "entry"), type=TypeRef(order_t.name.xml, 0, order_t), file=0)]
        out.append((f"split-namespace:{label}", SchemaSet([f0, f1, f2, f3], "f0.xsd", None,
                                                          {"one-namespace-in-two-files", "member-type-foreign", "extension", "extension-foreign", "element-ref-foreign"})))
    return out


def inner_xmlns_family():
    """A global element whose anonymous complexType declares (or binds anew) the prefix of a member's type on its own start tag —
    not on the element, not on the schema. Both namespaces have a type `Item`, so a prefix that is not honoured still finds
    *an* Item: the wrong one."""
    out = []
    for label, rebind in (("declared-on-the-inner-complex-type", False), ("bound-anew-on-the-inner-complex-type", True)):
        f0 = _file(0, "http://zv.test/inner/orders", {0: "ord", 1: "cat", 2: "oth"}, [1, 2])
        f1 = _file(1, "http://zv.test/inner/catalog", {1: "cat"})
        f2 = _file(2, "http://zv.test/inner/other", {2: "oth"})
        own_item = ComplexType(N("item"), Content(Group("sequence", 1, 1, [LocalElement(N("line"), TypeRef("int"))]), []), file=0)
        cat_item = ComplexType(N("item"), Content(Group("sequence", 1, 1, [LocalElement(N("sku"), TypeRef("string"))]),
                                                  [Attr(N("stock"), TypeRef("int"), False)]), file=1)
        oth_item = ComplexType(N("item"), Content(Group("sequence", 1, 1, [LocalElement(N("misc"), TypeRef("boolean"))]), []), file=2)
        f1.components = [cat_item]
        f2.components = [oth_item]
        order = GlobalElement(N("order"), content=Content(Group("sequence", 1, 1, [
            LocalElement(N("from", "catalog"), TypeRef(cat_item.name.xml, 1, cat_item)),
            LocalElement(N("own", "line"), TypeRef(own_item.name.xml, 0, own_item), 0, 3)]), []), file=0)
        order.xmlns_inner = True
        # the same for the base of an anonymous type: <element name="Special"><complexType xmlns:cat=…><complexContent><extension base="cat:Item">
        special = GlobalElement(N("special"), content=Content(Group("sequence", 1, 1, [LocalElement(N("note"), TypeRef("string"), 0, 1)]), []),
                                base=TypeRef(cat_item.name.xml, 1, cat_item), file=0)
        special.xmlns_inner = True
        if rebind:
            special.prefix_override = {"bind": 1, "as": "oth", "hides": 2}
        if rebind:
            # the schema binds `oth` to the third namespace; the inner complexType of `order` binds it to the catalog
            order.prefix_override = {"bind": 1, "as": "oth", "hides": 2}
            user = ComplexType(N("keeps", "outer"), Content(Group("sequence", 1, 1, [LocalElement(N("misc", "item"), TypeRef(oth_item.name.xml, 2, oth_item))]), []), file=0)
            f0.components = [own_item, order, special, user]
        else:
            f0.nested_xmlns = True
            f0.components = [own_item, order, special]
        out.append((f"inner-xmlns:{label}", SchemaSet([f0, f1, f2], "f0.xsd", None, {"xmlns-on-inner-complex-type", "member-type-foreign", "nested-xmlns"})))
    return out


def xml_named_family():
    """Names and prefixes that begin with the letters x, m, l (reserved by XML for itself, used all the same: xmlData, prefix
    xmlapi) in references: `ref="xmlNote"` under a default namespace and `ref="xmlapi:xmlRemark"` mean global elements, not
    `xml:…` attributes."""
    f0 = _file(0, "http://zv.test/xmlnamed/main", {0: "", 1: "xmlapi"}, [1])
    f1 = _file(1, "http://zv.test/xmlnamed/api", {1: "xmlapi"})
    remark = GlobalElement(Name(("xml", "remark"), "camel"), content=Content(Group("sequence", 1, 1, [LocalElement(N("text"), TypeRef("string"))]), []), file=1)
    plain = GlobalElement(N("plain", "remark"), content=Content(Group("sequence", 1, 1, [LocalElement(N("text"), TypeRef("string"))]), []), file=1)
    f1.components = [remark, plain]
    note = GlobalElement(Name(("xml", "note"), "camel"), content=Content(Group("sequence", 1, 1, [LocalElement(N("line"), TypeRef("int"))]), []), file=0)
    holder = ComplexType(N("holder"), Content(Group("sequence", 1, 1, [
        ElementRef(TypeRef(note.name.xml, 0, note)), ElementRef(TypeRef(remark.name.xml, 1, remark), 0, 1),
        ElementRef(TypeRef(plain.name.xml, 1, plain), 0, 3)]), []), file=0)
    f0.components = [note, holder]
    return [("xml-named:references", SchemaSet([f0, f1], "f0.xsd", None, {"names-beginning-with-xml", "element-ref", "element-ref-foreign", "own-namespace-as-default"}))]


def schema_prefix_abbreviation_family():
    """The prefix a file binds to XML Schema (xsd, xs, s) is also what zeep abbreviates an imported namespace to (…/xsd, …/xs,
    …/s), and that namespace has types called like built-in ones (date, language, int): `xsd:date` is the built-in type, whatever
    the generated code calls the other namespace."""
    out = []
    for pfx in ("xsd", "xs", "s"):
        f0 = _file(0, "http://zv.test/abbr/main", {0: "tns", 1: "ax"}, [1])
        f0.xs_prefix = pfx
        f1 = _file(1, f"http://zv.test/abbr/axis/{pfx}", {1: "ax"})
        date = SimpleType(Name(("date",), "snake"), TypeRef("string"), Facets(enumeration=["today", "never"]), None, 1)
        language = SimpleType(Name(("language",), "snake"), TypeRef("string"), Facets(max_length=2), None, 1)
        int_t = ComplexType(Name(("int",), "snake"), Content(Group("sequence", 1, 1, [LocalElement(N("digits"), TypeRef("string"))]), []), file=1)
        f1.components = [date, language, int_t]
        holder = ComplexType(N("holder"), Content(Group("sequence", 1, 1, [
            LocalElement(N("built", "in", "date"), TypeRef("date")), LocalElement(N("built", "in", "int"), TypeRef("int"), 0, 1),
            LocalElement(N("built", "in", "language"), TypeRef("language"), 0, 1),
            LocalElement(N("their", "date"), TypeRef(date.name.xml, 1, date), 0, 1), LocalElement(N("their", "int"), TypeRef(int_t.name.xml, 1, int_t), 0, 1),
            LocalElement(N("their", "language"), TypeRef(language.name.xml, 1, language), 0, 1)]), []), file=0)
        f0.components = [holder, GlobalElement(N("held"), type=TypeRef(holder.name.xml, 0, holder), file=0)]
        out.append((f"schema-prefix-is-an-abbreviation:{pfx}", SchemaSet([f0, f1], "f0.xsd", None, {"schema-prefix-equals-a-namespace-abbreviation", "member-type-foreign", "type-named-like-builtin"})))
    return out


def derived_foreign_facets_program():
    """A small WSDL whose request carries values of simple types that restrict simple types of ANOTHER namespace: one adds a facet
    of its own and inherits the rest, one adds nothing, one is two steps away. Every inherited facet has to be enforced through
    the base's check in the other module."""
    from . import gen_c14
    ss = gen_c14.base_program()
    f0, f1 = ss.files
    code, level, tag = (c for c in f1.components if c.kind == "simple")
    short_code = SimpleType(N("short", "code"), TypeRef(tag.name.xml, 1, tag), Facets(min_length=2), None, 0)        # inherits maxLength 12
    plain_level = SimpleType(N("plain", "level"), TypeRef(level.name.xml, 1, level), Facets(), None, 0)                # inherits 1..9
    narrow_level = SimpleType(N("narrow", "level"), TypeRef(plain_level.name.xml, 0, plain_level), Facets(max_inclusive=5), None, 0)   # 1 from two steps away
    choice_code = SimpleType(N("choice", "code"), TypeRef(code.name.xml, 1, code), Facets(), None, 0)                  # inherits the enumeration
    req = next(c for c in f0.components if c.kind == "gelement" and c.name.xml == "Submit")
    req.content.group.items += [LocalElement(N("short"), TypeRef(short_code.name.xml, 0, short_code)),
                                LocalElement(N("plain"), TypeRef(plain_level.name.xml, 0, plain_level), 0, 1),
                                LocalElement(N("narrow"), TypeRef(narrow_level.name.xml, 0, narrow_level), 0, 3),
                                LocalElement(N("choice"), TypeRef(choice_code.name.xml, 0, choice_code), 0, 1)]
    f0.components = [short_code, plain_level, narrow_level, choice_code] + f0.components
    ss.features = {"wsdl", "soap-headers", "simple-derived-foreign", "simple-derived", "derived-foreign-facets-program"}
    return ss


def two_header_parts_of_one_element_program():
    """A request with three header parts, two of which (next to each other in the binding) carry the same global element (one that becomes a struct; built-in typed ones do not compile with yaserde 0.12's derive):
    primaryToken and backupToken are two entries of the Header, not one."""
    from . import gen_c14
    ss = gen_c14.base_program()
    f0 = ss.files[0]
    token = GlobalElement(N("token"), content=Content(Group("sequence", 1, 1, [LocalElement(N("secret"), TypeRef("string"))]), []), file=0)
    f0.components.append(token)
    op = ss.wsdl.operations[0]
    p1, p2 = Part(N("primary", "token"), TypeRef(token.name.xml, 0, token)), Part(N("backup", "token"), TypeRef(token.name.xml, 0, token))
    op.input.parts += [p1, p2]
    op.in_headers = list(op.in_headers) + [p1.name, p2.name]
    ss.features = {"wsdl", "soap-headers", "two-header-parts-of-one-element"}
    return ss


def _code(i):
    """A digit-free word for a number (case conversion of digits is ambiguous)."""
    return "k" + "".join("abcdefghij"[int(d)] for d in str(i))


def many_colliding_namespaces(n=13, extend=False):
    """One start file that imports n-1 others whose namespace URIs all end in the same path segment (…/2013/types, …/2014/types,
    …): every one of them would get the same abbreviation, so n different prefixes / module names have to be handed out — more
    than nine, so that the numbers appended to the abbreviation get a second digit."""
    files = [_file(0, "http://zv.test/many/start/types", {0: "p0"})]
    items = []
    for i in range(1, n):
        f = _file(i, f"http://zv.test/many/{2012 + i}/types", {i: f"p{i}"})
        item = ComplexType(N("item"), Content(Group("sequence", 1, 1, [LocalElement(N("year", _code(i)), TypeRef("string"))]),
                                              [Attr(N("rev"), TypeRef("int"), False)]), file=i)
        f.components = [item]
        files[0].prefixes[i] = f"p{i}"
        files[0].imports.append(i)
        files.append(f)
        items.append(item)
    holder = ComplexType(N("holder"), Content(Group("sequence", 1, 1, [
        LocalElement(N("slot", _code(k)), TypeRef(it.name.xml, it.file, it), 0, 1) for k, it in enumerate(items)]), []), file=0)
    comps = [holder]
    if extend:
        last = items[-1]
        comps.append(ComplexType(N("extended"), Content(Group("sequence", 1, 1, [LocalElement(N("more"), TypeRef("string"))]), []),
                                 base=TypeRef(last.name.xml, last.file, last), file=0))
    comps.append(GlobalElement(N("holding"), type=TypeRef(holder.name.xml, 0, holder), file=0))
    files[0].components = comps
    return SchemaSet(files, "f0.xsd", None, {"many-colliding-namespaces", "member-type-foreign", "attributes"} | ({"extension", "extension-foreign"} if extend else set()))


TABLES = {"occurrence_table": occurrence_table}
