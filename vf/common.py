"""Shared plumbing: building the tools from the tree under test, seeds, verdicts, findings, evidence."""
import fnmatch
import hashlib
import json
import os
import random
import shutil
import subprocess
import sys
import time

VERIF = os.path.dirname(os.path.dirname(os.path.abspath(__file__)))
REPO = "/repo"
WORK = os.environ.get("VERIF_WORK") or os.path.join(VERIF, "work")
TARGET = os.path.join(WORK, "target")
TOOLS = os.path.join(VERIF, "tools")
REPLAYS = os.environ.get("VERIF_REPLAYS") or os.path.join(VERIF, "replays")
EVIDENCE = os.environ.get("VERIF_EVIDENCE") or os.path.join(VERIF, "evidence")
KNOWN = os.path.join(VERIF, "known_findings.json")

ENV = dict(os.environ, CARGO_NET_OFFLINE="true", CARGO_TERM_COLOR="never")
ENV.pop("RUSTFLAGS", None)


class Inconclusive(Exception):
    pass


def seed_value():
    try:
        return int(os.environ.get("VERIF_SEED", "1"))
    except ValueError:
        return 1


def rng(*names):
    """Named sub-stream of VERIF_SEED: rng('C13', 'mutate', 17)."""
    h = hashlib.sha256(("/".join(str(n) for n in (seed_value(),) + names)).encode()).digest()
    return random.Random(int.from_bytes(h[:8], "big"))


def scratch(tag):
    d = os.path.join(WORK, f"{tag}-{os.getpid()}")
    shutil.rmtree(d, ignore_errors=True)
    os.makedirs(d)
    return d


def run(cmd, cwd=None, timeout=1800, env=None, input=None):
    return subprocess.run(cmd, cwd=cwd, env=env or ENV, stdout=subprocess.PIPE, stderr=subprocess.PIPE,
                          timeout=timeout, input=input)


_built = {}


def build_tool(pkg):
    """cargo build one tool of /verif/tools against /repo's *current working tree*. Failure = inconclusive."""
    if pkg in _built:
        return _built[pkg]
    os.makedirs(WORK, exist_ok=True)
    lock = os.path.join(TOOLS, "Cargo.lock")
    if not os.path.exists(lock):
        shutil.copy(os.path.join(REPO, "Cargo.lock"), lock)
    try:
        p = run(["cargo", "build", "-q", "-p", pkg, "--target-dir", TARGET], cwd=TOOLS, timeout=1500)
    except subprocess.TimeoutExpired:
        raise Inconclusive(f"build of {pkg} timed out")
    if p.returncode != 0:
        raise Inconclusive(f"build of {pkg} against the tree under test failed: " + p.stderr.decode(errors="replace")[-1500:])
    path = os.path.join(TARGET, "debug", pkg)
    _built[pkg] = path
    return path


def build_tool_unoptimised(pkg):
    """The same tool built the way `cargo build` builds a user's debug build: no optimisation anywhere, stack frames of full size
    (profile `stackdebug` of tools/Cargo.toml). Used where a verdict depends on how much stack a level of recursion takes."""
    key = pkg + ":stackdebug"
    if key in _built:
        return _built[key]
    build_tool(pkg)           # (lock file, and the ordinary build first: a tree that does not build is reported once)
    try:
        p = run(["cargo", "build", "-q", "-p", pkg, "--profile", "stackdebug", "--target-dir", TARGET], cwd=TOOLS, timeout=1500)
    except subprocess.TimeoutExpired:
        raise Inconclusive(f"unoptimised build of {pkg} timed out")
    if p.returncode != 0:
        raise Inconclusive(f"unoptimised build of {pkg} failed: " + p.stderr.decode(errors="replace")[-1500:])
    _built[key] = os.path.join(TARGET, "stackdebug", pkg)
    return _built[key]


def build_zeep_bin():
    """The CLI binary of the tree under test, built into /verif/work (never /repo/target)."""
    if "zeep-bin" in _built:
        return _built["zeep-bin"]
    tdir = os.path.join(WORK, "target-repo")
    try:
        p = run(["cargo", "build", "-q", "-p", "zeep", "--offline", "--target-dir", tdir], cwd=REPO, timeout=1500)
    except subprocess.TimeoutExpired:
        raise Inconclusive("build of zeep timed out")
    if p.returncode != 0:
        raise Inconclusive("build of the zeep binary failed: " + p.stderr.decode(errors="replace")[-1500:])
    _built["zeep-bin"] = os.path.join(tdir, "debug", "zeep")
    return _built["zeep-bin"]


# ------------------------------------------------------------------------------------------- findings

def load_known(prop):
    try:
        data = json.load(open(KNOWN))
    except FileNotFoundError:
        return []
    return [e for e in data.get("findings", []) if e.get("property") == prop]


def match_known(entries, signature):
    for e in entries:
        if e.get("status") != "open":
            continue
        if e.get("signature") == signature:
            return e
        g = e.get("signature_glob")
        if g and fnmatch.fnmatchcase(signature, g):
            return e
    return None


class Verdict:
    """Collects violation records {signature, detail, replay files} and decides the exit code."""

    def __init__(self, prop, tier, level):
        self.prop = prop
        self.tier = tier
        self.level = level
        self.t0 = time.time()
        self.records = {}      # signature -> {count, detail, files}
        self.known = load_known(prop)
        self.inconclusive = None
        shutil.rmtree(os.path.join(REPLAYS, prop), ignore_errors=True)

    def violation(self, signature, detail, files=None):
        r = self.records.get(signature)
        if r is None:
            self.records[signature] = {"count": 1, "detail": detail, "files": files or {}}
        else:
            r["count"] += 1

    def write_replay(self, signature, rec):
        h = hashlib.sha256(signature.encode()).hexdigest()[:12]
        d = os.path.join(REPLAYS, self.prop, h)
        shutil.rmtree(d, ignore_errors=True)
        os.makedirs(d, exist_ok=True)
        with open(os.path.join(d, "witness.json"), "w") as f:
            json.dump({"property": self.prop, "signature": signature, "count": rec["count"], "seed": seed_value(),
                       "tier": self.tier, "detail": rec["detail"]}, f, indent=1, ensure_ascii=False, default=str)
        for name, content in rec["files"].items():
            p = os.path.join(d, name)
            os.makedirs(os.path.dirname(p), exist_ok=True)
            mode = "wb" if isinstance(content, bytes) else "w"
            with open(p, mode) as f:
                f.write(content)
        return d

    def finish(self, coverage, assumptions=None, min_evaluations=1):
        """Write evidence, print verdict lines, exit."""
        wall = time.time() - self.t0
        unlisted = []
        reproduced = {}
        for sig, rec in sorted(self.records.items()):
            e = match_known(self.known, sig)
            if e is not None:
                key = e.get("signature") or e.get("signature_glob")
                reproduced[key] = reproduced.get(key, 0) + rec["count"]
            else:
                unlisted.append((sig, rec))
        cov = dict(coverage)
        cov.setdefault("samples", [])
        cov["known_findings_reproduced"] = reproduced
        cov["violating_signatures"] = sorted(self.records.keys())[:50]
        ev = {
            "property_id": self.prop, "tier": self.tier, "seed": seed_value(), "level": self.level,
            "coverage": cov, "assumptions": assumptions or [], "wall_s": round(wall, 2),
            "violations": len(unlisted),
        }
        os.makedirs(EVIDENCE, exist_ok=True)
        path = os.path.join(EVIDENCE, f"{self.prop}.json")
        with open(path, "w") as f:
            json.dump(ev, f, indent=1, ensure_ascii=False, default=str)
            f.write("\n")
        for e in self.known:
            if e.get("status") == "open":
                key = e.get("signature") or e.get("signature_glob")
                print(f"KNOWN-FINDING: property={self.prop} {e.get('what', key)} [signature={key} reproduced={reproduced.get(key, 0)}]")
        if self.inconclusive or cov.get("evaluations", 0) < min_evaluations and not unlisted:
            reason = self.inconclusive or f"only {cov.get('evaluations', 0)} cases reached the oracle (minimum {min_evaluations})"
            print(f"INCONCLUSIVE property={self.prop} reason={reason}")
            sys.exit(2)
        if unlisted:
            for sig, rec in unlisted[:25]:
                d = self.write_replay(sig, rec)
                print(f"VIOLATION property={self.prop} replay={d}")
                print(f"  signature: {sig}  (x{rec['count']})")
            print(f"{self.prop}: VIOLATED — {len(unlisted)} distinct unlisted signature(s); evaluations={cov.get('evaluations')} wall={wall:.1f}s")
            sys.exit(1)
        print(f"{self.prop}: held on everything explored — evaluations={cov.get('evaluations')} "
              f"distinct_nontrivial={cov.get('distinct_nontrivial')} tier={self.tier} seed={seed_value()} wall={wall:.1f}s")
        sys.exit(0)


def inconclusive_exit(prop, reason):
    print(f"INCONCLUSIVE property={prop} reason={reason}")
    sys.exit(2)


# ------------------------------------------------------------------------------------------- zdrive pool

class ZWorker:
    """One `zdrive worker` child; restarts itself when the child dies and reports which job was in flight."""

    def __init__(self, path):
        self.path = path
        self.p = None
        self.stderr_path = None
        self.buf = b""

    def _start(self):
        self.stderr_path = os.path.join(WORK, f"zdrive-stderr-{os.getpid()}-{id(self)}.txt")
        self.errf = open(self.stderr_path, "wb")
        self.buf = b""
        self.p = subprocess.Popen([self.path, "worker"], stdin=subprocess.PIPE, stdout=subprocess.PIPE,
                                  stderr=self.errf, env=dict(ENV, RUST_BACKTRACE="0"), bufsize=0)

    def close(self):
        if self.p:
            try:
                self.p.stdin.close()
                self.p.wait(timeout=5)
            except Exception:
                self.p.kill()
            self.p = None
            try:
                self.errf.close()
                os.unlink(self.stderr_path)
            except OSError:
                pass

    def run(self, job, wall_timeout=300):
        """Returns the result dict; a dead child gives {'died': signal-or-code, 'stderr': tail}."""
        if self.p is None or self.p.poll() is not None:
            self.close()
            self._start()
        line = (json.dumps(job) + "\n").encode()
        try:
            self.p.stdin.write(line)
            self.p.stdin.flush()
        except BrokenPipeError:
            pass
        import select
        deadline = time.time() + wall_timeout
        started = False
        fd = self.p.stdout.fileno()
        eof = False
        while not eof:
            # drain complete lines already buffered
            while b"\n" in self.buf:
                out, self.buf = self.buf.split(b"\n", 1)
                try:
                    msg = json.loads(out)
                except json.JSONDecodeError:
                    continue
                if "start" in msg:
                    started = True
                    continue
                if "bad_job" in msg:
                    return {"id": job.get("id"), "bad_job": msg["bad_job"]}
                return msg
            remaining = deadline - time.time()
            if remaining <= 0:
                self.p.kill()
                self.p.wait()
                self.close()
                return {"id": job.get("id"), "watchdog": True}
            r, _, _ = select.select([fd], [], [], min(remaining, 5))
            if not r:
                continue
            chunk = os.read(fd, 1 << 16)
            if not chunk:
                eof = True
            else:
                self.buf += chunk
        rc = self.p.wait()
        self.errf.flush()
        try:
            tail = open(self.stderr_path, "rb").read()[-600:].decode(errors="replace")
        except OSError:
            tail = ""
        self.close()
        return {"id": job.get("id"), "died": rc, "started": started, "stderr": tail}


def classify_death(res):
    """died result → ('stack-overflow'|'cpu-limit'|'abort'|'oom'|'signal-N'|'exit-N')."""
    rc = res.get("died")
    tail = res.get("stderr", "")
    if "has overflowed its stack" in tail:
        return "stack-overflow"
    if "memory allocation of" in tail:
        return "alloc-failure"
    if rc is not None and rc < 0:
        import signal as _s
        if -rc == _s.SIGXCPU:
            return "cpu-limit"
        if -rc == _s.SIGKILL:
            return "cpu-limit" if "cpu" in tail.lower() else "killed"
        if -rc == _s.SIGABRT:
            return "abort"
        if -rc == _s.SIGSEGV:
            return "stack-overflow"
        return f"signal-{-rc}"
    return f"exit-{rc}"


def run_jobs(zdrive, jobs, nworkers=16, wall_timeout=300, progress=None):
    """Run jobs over a pool of zdrive workers (threads driving subprocesses). Returns results in job order."""
    import threading
    results = [None] * len(jobs)
    idx = {"i": 0}
    lock = threading.Lock()

    def loop():
        w = ZWorker(zdrive)
        try:
            while True:
                with lock:
                    i = idx["i"]
                    if i >= len(jobs):
                        return
                    idx["i"] += 1
                results[i] = w.run(jobs[i], wall_timeout=wall_timeout)
                if progress and i % 1000 == 0:
                    progress(i)
        finally:
            w.close()

    ts = [threading.Thread(target=loop, daemon=True) for _ in range(min(nworkers, max(1, len(jobs))))]
    for t in ts:
        t.start()
    for t in ts:
        t.join()
    return results
