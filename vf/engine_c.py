"""Engine C: the built `zeep` binary in scratch directories (C17). Observers: exit status, stderr, bytes of the
output path before/after, directory listings; reference bytes come from the library through zdrive."""
import hashlib
import os
import shutil
import subprocess

from . import common
from .common import Verdict, Inconclusive

XS = 'xmlns:xs="http://www.w3.org/2001/XMLSchema"'

VALID_XSD = (f'<?xml version="1.0"?>\n<xs:schema {XS} xmlns:t="http://zv.test/cli/types" targetNamespace="http://zv.test/cli/types" '
             'elementFormDefault="qualified">\n<xs:simpleType name="Code"><xs:restriction base="xs:string"><xs:maxLength value="4"/>'
             '</xs:restriction></xs:simpleType>\n<xs:complexType name="Item"><xs:annotation><xs:documentation>An item\nwith two doc lines'
             '</xs:documentation></xs:annotation><xs:sequence><xs:element name="code" type="t:Code"/><xs:element name="qty" type="xs:int" '
             'minOccurs="0"/></xs:sequence><xs:attribute name="id" type="xs:string" use="required"/></xs:complexType>\n</xs:schema>\n')

TYPES_XSD = (f'<?xml version="1.0"?>\n<xs:schema {XS} targetNamespace="http://zv.test/cli/shared" elementFormDefault="qualified">'
             '<xs:complexType name="Money"><xs:sequence><xs:element name="amount" type="xs:decimal"/><xs:element name="currency" '
             'type="xs:string"/></xs:sequence></xs:complexType></xs:schema>\n')


def wsdl(body_use="literal", part_element="tns:PayRequest", import_loc="shared.xsd"):
    return (f'<?xml version="1.0"?>\n<wsdl:definitions xmlns:wsdl="http://schemas.xmlsoap.org/wsdl/" '
            f'xmlns:soap="http://schemas.xmlsoap.org/wsdl/soap/" {XS} xmlns:tns="http://zv.test/cli/svc" '
            f'xmlns:sh="http://zv.test/cli/shared" targetNamespace="http://zv.test/cli/svc">\n<wsdl:types>'
            f'<xs:schema targetNamespace="http://zv.test/cli/svc" elementFormDefault="qualified">'
            f'<xs:import namespace="http://zv.test/cli/shared" schemaLocation="{import_loc}"/>'
            f'<xs:element name="PayRequest"><xs:complexType><xs:sequence><xs:element name="price" type="sh:Money"/>'
            f'<xs:element name="note" type="xs:string" minOccurs="0"/></xs:sequence></xs:complexType></xs:element>'
            f'<xs:element name="PayResponse"><xs:complexType><xs:sequence><xs:element name="ok" type="xs:boolean"/></xs:sequence>'
            f'</xs:complexType></xs:element></xs:schema></wsdl:types>\n'
            f'<wsdl:message name="PayIn"><wsdl:part name="parameters" element="{part_element}"/></wsdl:message>'
            f'<wsdl:message name="PayOut"><wsdl:part name="parameters" element="tns:PayResponse"/></wsdl:message>\n'
            f'<wsdl:portType name="PayPort"><wsdl:operation name="Pay"><wsdl:input message="tns:PayIn"/><wsdl:output message="tns:PayOut"/>'
            f'</wsdl:operation></wsdl:portType>\n<wsdl:binding name="PayBinding" type="tns:PayPort"><soap:binding style="document" '
            f'transport="http://schemas.xmlsoap.org/soap/http"/><wsdl:operation name="Pay"><soap:operation soapAction="http://zv.test/cli/Pay"/>'
            f'<wsdl:input><soap:body use="{body_use}" parts="parameters"/></wsdl:input><wsdl:output><soap:body use="{body_use}"/></wsdl:output>'
            f'</wsdl:operation></wsdl:binding>\n<wsdl:service name="PayService"><wsdl:port name="PayPort" binding="tns:PayBinding">'
            f'<soap:address location="http://127.0.0.1:9/pay"/></wsdl:port></wsdl:service>\n</wsdl:definitions>\n')


# scenario → (files {name: bytes|str}, input name, should_succeed, failing stage)
def scenarios():
    return {
        "valid-xsd": ({"item.xsd": VALID_XSD}, "item.xsd", True, None),
        "valid-wsdl-with-sibling-import": ({"pay.wsdl": wsdl(), "shared.xsd": TYPES_XSD, "zz_unused.xsd": VALID_XSD}, "pay.wsdl", True, None),
        "valid-xsd-odd-extension": ({"schema.v1.xml": VALID_XSD}, "schema.v1.xml", True, None),
        "valid-xsd-uppercase-extension": ({"ITEM.XSD": VALID_XSD}, "ITEM.XSD", True, None),
        "valid-wsdl-double-extension": ({"pay.wsdl.bak": wsdl(), "shared.xsd": TYPES_XSD}, "pay.wsdl.bak", True, None),
        "valid-xsd-no-extension": ({"schema": VALID_XSD}, "schema", True, None),
        "missing-file": ({"other.xsd": VALID_XSD}, "nope.xsd", False, "locate-input"),
        "directory-as-input": ({"adir/inner.xsd": VALID_XSD}, "adir", False, "locate-input"),
        "imported-sibling-not-utf8": ({"pay.wsdl": wsdl(), "shared.xsd": b"\xff\xfe\x00<xs:schema/>"}, "pay.wsdl", False, "read-siblings"),
        "input-not-utf8-latin1": ({"latin.xsd": VALID_XSD.replace("<xs:schema", "<!-- caf\u00e9 --><xs:schema").encode("latin-1")}, "latin.xsd", False, "read-input"),
        "input-utf16": ({"wide.xsd": VALID_XSD.encode("utf-16")}, "wide.xsd", False, "read-input"),
        "malformed-xml": ({"bad.xsd": VALID_XSD.replace("</xs:schema>", "")}, "bad.xsd", False, "parse"),
        "unresolved-import": ({"pay.wsdl": wsdl(import_loc="gone.xsd"), "shared.xsd": TYPES_XSD}, "pay.wsdl", False, "import"),
        "unresolved-reference": ({"pay.wsdl": wsdl(part_element="tns:NoSuchElement"), "shared.xsd": TYPES_XSD}, "pay.wsdl", False, "resolve"),
        "unsupported-binding": ({"pay.wsdl": wsdl(body_use="encoded"), "shared.xsd": TYPES_XSD}, "pay.wsdl", False, "binding"),
        "empty-file": ({"empty.xsd": ""}, "empty.xsd", False, "parse"),
    }


SPELLINGS = ["absolute", "relative-with-dir", "dot-slash", "bare-name", "dotdot", "symlink-elsewhere"]


def _sha(p):
    try:
        return hashlib.sha256(open(p, "rb").read()).hexdigest()
    except (FileNotFoundError, IsADirectoryError):
        return None


def _listing(root):
    out = set()
    for d, _, fs in os.walk(root):
        for f in fs:
            out.add(os.path.relpath(os.path.join(d, f), root))
    return out


def c17(tier):
    v = Verdict("C17", tier, "fault_enumeration")
    zeep = common.build_zeep_bin()
    zdrive = common.build_tool("zdrive")
    root = common.scratch("c17")
    runs = 0
    cells = set()
    samples = []
    outcome_table = {}
    try:
        scen = scenarios()
        # reference bytes from the library for the succeeding scenarios
        ref = {}
        for name, (files, inp, ok, _) in scen.items():
            if not ok:
                continue
            d = os.path.join(root, "ref-" + name)
            os.makedirs(d)
            for fn, c in files.items():
                os.makedirs(os.path.dirname(os.path.join(d, fn)), exist_ok=True)
                with open(os.path.join(d, fn), "wb") as f:
                    f.write(c if isinstance(c, bytes) else c.encode())
            out = os.path.join(root, f"ref-{name}.bytes")
            w = common.ZWorker(zdrive)
            res = w.run({"id": 0, "op": "gen", "dir": d, "start": inp, "bytes_path": out})
            w.close()
            if "calls" not in res or res["calls"][0]["outcome"] != "ok":
                raise Inconclusive(f"library rejected the reference scenario {name}: {res}")
            ref[name] = open(out, "rb").read()
        case = 0
        for name, (files, inp, should_ok, stage) in scen.items():
            for spelling in SPELLINGS:
                for out_mode in ("explicit", "explicit-relative", "default", "explicit-other-extension", "explicit-no-extension",
                                 "explicit-two-extensions"):
                    if out_mode.startswith("explicit-") and out_mode != "explicit-relative" and spelling not in ("absolute", "bare-name"):
                        continue
                    for pre in ("absent", "shorter", "longer", "same-size"):
                        if pre == "same-size" and not should_ok:
                            continue            # (a size to match exists only where output is expected)
                        case += 1
                        base = os.path.join(root, f"case{case}")
                        indir = os.path.join(base, "proj", "in.d")      # a dot in a directory name must not matter
                        sib = os.path.join(base, "proj", "sib")
                        elsewhere = os.path.join(base, "elsewhere")
                        for d in (indir, sib, elsewhere):
                            os.makedirs(d)
                        for fn, c in files.items():
                            os.makedirs(os.path.dirname(os.path.join(indir, fn)), exist_ok=True)
                            with open(os.path.join(indir, fn), "wb") as f:
                                f.write(c if isinstance(c, bytes) else c.encode())
                        in_abs = os.path.join(indir, inp)
                        if spelling == "absolute":
                            cwd, arg = elsewhere, in_abs
                        elif spelling == "relative-with-dir":
                            cwd, arg = os.path.join(base, "proj"), os.path.join("in.d", inp)
                        elif spelling == "dot-slash":
                            cwd, arg = indir, "./" + inp
                        elif spelling == "bare-name":
                            cwd, arg = indir, inp
                        elif spelling == "symlink-elsewhere":
                            # the input is named through a symbolic link in another directory, under another name; its siblings
                            # are linked next to it: the run is about the path as given (output next to the link, siblings next to it)
                            ldir = os.path.join(base, "links")
                            os.makedirs(ldir)
                            ext = os.path.splitext(inp)[1]
                            for fn in files:
                                if os.sep in fn or fn == inp:
                                    continue
                                os.symlink(os.path.join(indir, fn), os.path.join(ldir, fn))
                            in_abs = os.path.join(ldir, "alias-of-input" + ext)
                            os.symlink(os.path.join(indir, inp), in_abs)
                            cwd, arg = elsewhere, in_abs
                        else:
                            cwd, arg = sib, os.path.join("..", "in.d", inp)
                        stem = os.path.splitext(in_abs)[0]
                        if out_mode == "explicit":
                            out_abs = os.path.join(base, "out", "gen.rs")
                            os.makedirs(os.path.dirname(out_abs))
                            out_arg = out_abs
                        elif out_mode == "explicit-relative":
                            out_abs = os.path.join(cwd, "generated_out.rs")
                            out_arg = "generated_out.rs"
                        elif out_mode == "explicit-other-extension":
                            # --output names the file; a hand-written gen.rs next to it is nobody's business
                            out_abs = os.path.join(base, "out", "gen.inc")
                            os.makedirs(os.path.dirname(out_abs))
                            decoy = os.path.join(base, "out", "gen.rs")
                            out_arg = out_abs
                        elif out_mode == "explicit-no-extension":
                            out_abs = os.path.join(cwd, "generated_out")
                            decoy = os.path.join(cwd, "generated_out.rs")
                            out_arg = "generated_out"
                        elif out_mode == "explicit-two-extensions":
                            out_abs = os.path.join(base, "out.v2", "gen.rs.new")
                            os.makedirs(os.path.dirname(out_abs))
                            decoy = os.path.join(base, "out.v2", "gen.rs")
                            out_arg = out_abs
                        else:
                            out_abs = stem + ".rs"
                            out_arg = None
                        if out_mode in ("explicit-other-extension", "explicit-no-extension", "explicit-two-extensions"):
                            with open(decoy, "wb") as f:
                                f.write(b"// hand written, not to be touched\n")
                            decoy_sha = _sha(decoy)
                        else:
                            decoy = None
                        new_len = len(ref[name]) if should_ok else 15000
                        if pre == "shorter":
                            with open(out_abs, "wb") as f:
                                f.write(b"// previous short output\n")
                        elif pre == "longer":
                            with open(out_abs, "wb") as f:
                                f.write(b"// previous long output\n" + b"// stale line\n" * (new_len // 10 + 5000))
                        elif pre == "same-size":
                            # exactly as many bytes as the new output will have, other content (an earlier version of the schema
                            # with a renamed member): nothing about the old file says that it is out of date
                            with open(out_abs, "wb") as f:
                                f.write((b"// previous output of the same size\n" + b"#" * new_len)[:new_len])
                        before_sha = _sha(out_abs)
                        before_list = _listing(base)
                        cmd = [zeep, "--input", arg] + (["--output", out_arg] if out_arg else [])
                        try:
                            p = subprocess.run(cmd, cwd=cwd, stdout=subprocess.PIPE, stderr=subprocess.PIPE, timeout=120,
                                               env=dict(common.ENV, RUST_BACKTRACE="0"))
                        except subprocess.TimeoutExpired:
                            continue
                        runs += 1
                        after_sha = _sha(out_abs)
                        after_list = _listing(base)
                        new_files = after_list - before_list
                        expected_new = {os.path.relpath(out_abs, base)}
                        cell = (name, spelling, out_mode, pre)
                        cells.add(cell)
                        ctx = {"scenario": name, "spelling": spelling, "cwd": os.path.relpath(cwd, base), "arg": arg,
                               "output": out_mode, "pre_existing": pre, "exit": p.returncode,
                               "stderr": p.stderr.decode(errors="replace")[-400:]}
                        key = f"{name}:{'exit0' if p.returncode == 0 else 'nonzero'}"
                        outcome_table[key] = outcome_table.get(key, 0) + 1
                        if len(samples) < 6 and case % 37 == 1:
                            samples.append({k: ctx[k] for k in ("scenario", "spelling", "arg", "output", "pre_existing", "exit")})
                        if decoy is not None and _sha(decoy) != decoy_sha:
                            v.violation(f"C17|other-file-changed|output={out_mode}", dict(ctx, file=os.path.relpath(decoy, base)))
                        if new_files - expected_new:
                            v.violation(f"C17|stray-file|scenario={'valid' if should_ok else 'failing'}|output={out_mode}",
                                        dict(ctx, stray=sorted(new_files - expected_new)))
                        if should_ok:
                            if p.returncode != 0:
                                v.violation(f"C17|run-failed|spelling={spelling}|output={out_mode}", ctx)
                                continue
                            got = open(out_abs, "rb").read() if os.path.isfile(out_abs) else None
                            if got is None:
                                v.violation(f"C17|output-path|spelling={spelling}|output={out_mode}|what=not-written", ctx)
                            elif got != ref[name]:
                                if got.startswith(ref[name]) or ref[name] in got:
                                    v.violation(f"C17|stale-bytes|pre={pre}", ctx)
                                else:
                                    v.violation(f"C17|bytes-differ|spelling={spelling}|output={out_mode}", ctx)
                        else:
                            if p.returncode == 0:
                                v.violation(f"C17|exit-zero-on-failure|stage={stage}", ctx)
                            if pre != "absent" and after_sha != before_sha:
                                v.violation(f"C17|output-clobbered|stage={stage}", dict(ctx, after="missing" if after_sha is None else "changed"))
        # ---- the output itself cannot be written: generation succeeds, the run must still fail (non-zero status), and nothing
        # else may appear
        unwritable_runs = 0
        for name, (files, inp, should_ok, stage) in scen.items():
            if not should_ok:
                continue
            for how in ("parent-directory-missing", "path-is-a-directory", "device-full", "default-path-is-a-directory"):
                case += 1
                base = os.path.join(root, f"case{case}")
                indir = os.path.join(base, "proj", "in.d")
                os.makedirs(indir)
                for fn, c in files.items():
                    os.makedirs(os.path.dirname(os.path.join(indir, fn)), exist_ok=True)
                    with open(os.path.join(indir, fn), "wb") as f:
                        f.write(c if isinstance(c, bytes) else c.encode())
                in_abs = os.path.join(indir, inp)
                if how == "parent-directory-missing":
                    out_arg = os.path.join(base, "no", "such", "dir", "gen.rs")
                elif how == "path-is-a-directory":
                    out_arg = os.path.join(base, "outdir.rs")
                    os.makedirs(out_arg)
                elif how == "device-full":
                    out_arg = "/dev/full"
                    if not os.path.exists(out_arg):
                        continue
                else:
                    out_arg = None
                    os.makedirs(os.path.splitext(in_abs)[0] + ".rs")
                before_list = _listing(base)
                cmd = [zeep, "--input", in_abs] + (["--output", out_arg] if out_arg else [])
                try:
                    p = subprocess.run(cmd, cwd=base, stdout=subprocess.PIPE, stderr=subprocess.PIPE, timeout=120, env=dict(common.ENV, RUST_BACKTRACE="0"))
                except subprocess.TimeoutExpired:
                    continue
                runs += 1
                unwritable_runs += 1
                cells.add((name, "absolute", "unwritable:" + how, "absent"))
                ctx = {"scenario": name, "output": how, "exit": p.returncode, "stderr": p.stderr.decode(errors="replace")[-300:]}
                outcome_table[f"unwritable-output:{'exit0' if p.returncode == 0 else 'nonzero'}"] = \
                    outcome_table.get(f"unwritable-output:{'exit0' if p.returncode == 0 else 'nonzero'}", 0) + 1
                if p.returncode == 0:
                    v.violation(f"C17|exit-zero-on-failure|stage=write-output|how={how}", ctx)
                if _listing(base) - before_list:
                    v.violation("C17|stray-file|scenario=unwritable-output|output=" + how, dict(ctx, stray=sorted(_listing(base) - before_list)))
    finally:
        shutil.rmtree(root, ignore_errors=True)
    cov = {
        "evaluations": runs,
        "distinct_nontrivial": len(cells),
        "rule": "full matrix: 16 input scenarios (6 succeed, among them upper-case, double and missing file extensions; 10 fail at the stages locate-input, read-input (not UTF-8), read-siblings, parse, import, resolve, "
                "binding) x 6 path spellings/working directories (a symbolic link in another directory under another name with linked siblings, absolute from an unrelated cwd, dir/name from the parent, ./name and bare "
                "name from the input directory, ../in/name from a sibling directory) x output {--output absolute, --output relative to cwd, "
                "default; for two of the spellings also --output with another extension, with none and with two, each next to a "
                "hand-written file of the name that replacing the extension by .rs would give} x pre-existing output {absent, shorter, longer, exactly as long as the new output}. Every cell is one run of the built binary in a fresh scratch tree; "
                "distinct_nontrivial = distinct cells run. Oracles: exit status, output bytes == library bytes (zdrive on the same directory), "
                "no stale tail, no stray files, failing runs leave a pre-existing output byte-identical; plus, for every succeeding scenario, four "
                "ways in which the output cannot be written (missing parent directory, the path is a directory, /dev/full, the default path is "
                "a directory): non-zero exit status, nothing else created",
        "exhaustive": True, "exit_status_by_scenario": outcome_table, "samples": samples,
    }
    v.finish(cov, assumptions=["reference bytes: read_input_file_and_xsd_files_at_path + read_xml + write_xml through zdrive on a copy of the same files",
                               "runs as the current user (root): permission-based unreadability is not exercised; an invalid-UTF-8 imported sibling covers that stage"],
             min_evaluations=200)
