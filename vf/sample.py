"""Boundary-biased abstract values for generated types, independent of any Rust or XML spelling.

Value forms
  ("b", builtin, pyvalue, lexical)         leaf of a builtin type
  ("s", simple_comp, lexical)              leaf of a named simple type (always carried as text)
  ("c", struct_entry_comp, [member values])   complex value; member values parallel flat_members(comp):
                                               None (absent) | leaf/complex (single) | [items] (repeated)
"""
import struct as _struct

from .gen import builtin_window, flat_members, int_window
from .model import BUILTINS, INT_BUILTINS
from .refmap import member_target

XSD_INT_RANGE = {
    "byte": (-128, 127), "short": (-2**15, 2**15 - 1), "int": (-2**31, 2**31 - 1), "long": (-2**63, 2**63 - 1),
    "unsignedByte": (0, 255), "unsignedShort": (0, 65535), "unsignedInt": (0, 2**32 - 1), "unsignedLong": (0, 2**64 - 1),
    # unbounded in XSD; the sampler stays inside the documented i32 carrier (DESIGN §2 value-space note)
    "integer": (-2**31, 2**31 - 1), "negativeInteger": (-2**31, -1), "nonNegativeInteger": (0, 2**31 - 1),
    "nonPositiveInteger": (-2**31, 0), "positiveInteger": (1, 2**31 - 1),
}
STRINGS = ["plain", "a<b>&\"c'd", "é漢字", "x y  z", "0", "-", "UPPER lower 123"]
LEXICAL = {
    "date": ["2024-02-29", "1999-12-31Z"], "dateTime": ["2024-02-29T12:34:56Z", "2001-01-01T00:00:00.5+02:00"],
    "time": ["12:34:56", "00:00:00Z"], "language": ["en", "en-US"], "duration": ["P1DT2H", "PT0S"],
    "base64Binary": ["QUJD", "AA=="], "hexBinary": ["0FB7", "00"], "anyURI": ["http://example.org/a?b=c&d=e", "urn:x:y"],
}


def f32(x):
    return _struct.unpack("f", _struct.pack("f", x))[0]


def builtin_values(b):
    """[(pyvalue, lexical)] — extremes first."""
    if b in XSD_INT_RANGE:
        lo, hi = XSD_INT_RANGE[b]
        vals = [lo, hi] + [x for x in (0, 1, -1, 7, 42) if lo <= x <= hi]
        return [(x, str(x)) for x in vals]
    if b in ("decimal", "double"):
        return [(x, repr(x)) for x in (0.0, -1.5, 123456.789, 1e10, -0.001)]
    if b == "float":
        return [(x, repr(x)) for x in (0.0, 0.5, -3.25, 1e10, 16777216.0)]
    if b == "boolean":
        return [(True, "true"), (False, "false")]
    if b in ("string", "normalizedString"):
        return [(s, s) for s in STRINGS]
    return [(s, s) for s in LEXICAL[b]]


def simple_valid_values(st):
    """Lexical values that satisfy the whole facet chain of a named simple type."""
    ub = st.ultimate_builtin()
    enums = [f.enumeration for _, f in st.facet_chain() if f.enumeration is not None]
    if ub in INT_BUILTINS:
        lo, hi = int_window(st)
        lo2, hi2 = XSD_INT_RANGE[ub]
        lo, hi = max(lo, lo2), min(hi, hi2)
        vals = sorted({lo, hi, min(max(0, lo), hi), min(lo + 1, hi)})
        return [str(x) for x in vals]
    if ub in ("string", "normalizedString"):
        if enums:
            common = [x for x in enums[0] if all(x in e for e in enums)]
            return common or enums[0][:1]
        mn, mx, ln = 0, None, None
        for _, f in st.facet_chain():
            if f.min_length is not None:
                mn = max(mn, f.min_length)
            if f.max_length is not None:
                mx = f.max_length if mx is None else min(mx, f.max_length)
            if f.length is not None:
                ln = f.length
        if ln is not None:
            return ["é" * ln if ln else "", "x" * ln]
        out = []
        hi = mx if mx is not None else mn + 3
        for n in {mn, hi, max(mn, min(hi, 2))}:
            out.append(("ab漢c<&>xyz" * 3)[:n] if n else "")
            out.append(("k漢w" * 9)[:n] if n else "")
        return sorted(set(out))
    return [lex for _, lex in builtin_values(ub)][:2]


def simple_violating_values(st):
    """[(lexical, (owner simple type, facet name))] each violating exactly one facet of the chain."""
    ub = st.ultimate_builtin()
    out = []
    lo, hi = (int_window(st) if ub in INT_BUILTINS else (None, None))
    for owner, f in st.facet_chain():
        if ub in INT_BUILTINS:
            if f.min_inclusive is not None and f.min_inclusive == lo:
                out.append((str(f.min_inclusive - 1), (owner, "minInclusive")))
                # far outside, beyond what any machine integer holds (simple types carry their text)
                out.append(("-" + "9" * 40, (owner, "minInclusive")))
            if f.max_inclusive is not None and f.max_inclusive == hi:
                out.append((str(f.max_inclusive + 1), (owner, "maxInclusive")))
                out.append(("9" * 40, (owner, "maxInclusive")))
            if f.min_exclusive is not None and f.min_exclusive + 1 == lo:
                out.append((str(f.min_exclusive), (owner, "minExclusive")))
            if f.max_exclusive is not None and f.max_exclusive - 1 == hi:
                out.append((str(f.max_exclusive), (owner, "maxExclusive")))
            if f.enumeration is not None:
                members = [int(e) for e in f.enumeration]
                if min(members) == lo and lo - 1 >= XSD_INT_RANGE[ub][0]:
                    out.append((str(lo - 1), (owner, "enumeration")))
                if max(members) == hi and hi + 1 <= XSD_INT_RANGE[ub][1]:
                    out.append((str(hi + 1), (owner, "enumeration")))
        elif ub in ("string", "normalizedString"):
            if f.enumeration is not None:
                out.append(("zz-not-a-member", (owner, "enumeration")))
            if f.max_length is not None:
                out.append(("x" * (f.max_length + 1), (owner, "maxLength")))
            if f.min_length is not None and f.min_length > 0:
                out.append(("x" * (f.min_length - 1), (owner, "minLength")))
            if f.length is not None:
                out.append(("x" * (f.length + 1), (owner, "length")))
    return out


class Sampler:
    def __init__(self, r, plain_text=False):
        self.r = r
        # plain_text: no empty strings and no markup characters in text values (used where no reference-struct exclusion is
        # available and yaserde's known limits on empty text / struct-typed attributes would only add noise)
        self.plain_text = plain_text

    def _plain(self, vals):
        if not self.plain_text:
            return vals
        good = [v for v in vals if (v if isinstance(v, str) else v[1]) != "" and not any(c in (v if isinstance(v, str) else v[1]) for c in "<>&\"'")]
        return good or vals

    def leaf(self, m, mode):
        """One item value for flat member m."""
        kind, t = member_target(m)
        if kind == "builtin":
            vals = self._plain(builtin_values(t))
            pv, lex = vals[0] if mode == "lo" else (vals[1 % len(vals)] if mode == "hi" else self.r.choice(vals))
            return ("b", t, pv, lex)
        if t.kind == "simple":
            vals = self._plain(simple_valid_values(t))
            lex = vals[0] if mode == "lo" else (vals[-1] if mode == "hi" else self.r.choice(vals))
            return ("s", t, lex)
        return self.complex(t, mode)

    def complex(self, comp, mode):
        """mode: 'min' (optionals absent, vec minimal), 'full' (everything present once), 'many', 'lo', 'hi', 'rand'."""
        r = self.r
        members = flat_members(comp)
        vals = []
        stack = getattr(self, "_stack", None)
        if stack is None:
            stack = self._stack = []
        stack.append(comp)
        try:
            return self._complex(comp, mode, members, vals, stack)
        finally:
            stack.pop()

    def _complex(self, comp, mode, members, vals, stack):
        r = self.r
        # choices: pick one branch (a leaf or a nested group) per choice group, for schema validity
        paths = {id(m["item"]): self._choice_path(m) for m in members if m["kind"] != "attribute"}
        pick = {}
        for pth in paths.values():
            for ch, idx in pth:
                if id(ch) not in pick:
                    pick[id(ch)] = r.randrange(len(ch.items))
        for m in members:
            it = m["item"]
            attr = m["kind"] == "attribute"
            pth = paths.get(id(it), [])
            in_choice = bool(pth)
            if any(pick[id(ch)] != idx for ch, idx in pth):
                vals.append([] if m["repeated"] else None)
                continue
            tk, tt = member_target(m)
            if tk != "builtin" and any(tt is c for c in stack):
                # a member of the type that is being built (directly or further up): always left out, values stay finite
                vals.append([] if m["repeated"] else None)
                continue
            sub = "rand" if mode in ("full", "many", "min", "rand") else mode
            if m["repeated"]:
                cap = self._cap(m)
                lo_n = 0 if m["optional"] else 1
                n = {"min": lo_n, "full": max(1, lo_n), "many": cap, "lo": lo_n, "hi": cap}.get(mode, r.randrange(lo_n, cap + 1))
                vals.append([self.leaf(m, sub) for _ in range(n)])
            elif m["optional"] and not in_choice:
                present = {"min": False, "full": True, "many": True, "lo": False, "hi": True}.get(mode, r.random() < 0.6)
                vals.append(self.leaf(m, sub) if present else None)
            else:
                vals.append(self.leaf(m, sub))
        return ("c", comp, vals)

    @staticmethod
    def _choice_path(m):
        """[(choice group, index of the branch that leads to m's item)] from the content root down to the item."""
        from .model import Group
        it = m["item"]

        def path(g, acc):
            for i, x in enumerate(g.items):
                step = acc + ([(g, i)] if g.kind == "choice" else [])
                if x is it:
                    return step
                if isinstance(x, Group):
                    p = path(x, step)
                    if p is not None:
                        return p
            return None
        content = m["owner"].content
        if content is None or content.group is None:
            return []
        return path(content.group, []) or []

    @staticmethod
    def _cap(m):
        """How many items keep the instance schema-valid without interleaving questions: the member's own maxOccurs, or
        for a member that only repeats because an enclosing group repeats, 3 (or the group's n) when that group is a
        choice or holds this member alone, else 1 (one iteration of the group)."""
        from .model import Group
        it = m["item"]
        if it.max != 1:
            return 3 if it.max == "unbounded" else min(it.max, 4)
        # path of groups from the content root to the item
        def path(g, acc):
            for x in g.items:
                if x is it:
                    return acc + [g]
                if isinstance(x, Group):
                    p = path(x, acc + [g])
                    if p:
                        return p
            return None
        chain = path(m["owner"].content.group, []) or []
        cap = 1
        for g in chain:
            if g.max != 1:
                n = 3 if g.max == "unbounded" else min(g.max, 4)
                leaves = sum(1 for x in g.items if not isinstance(x, Group)) + sum(1 for x in g.items if isinstance(x, Group)) * 2
                if g.kind == "choice" or leaves == 1:
                    cap = max(cap, n)
        return cap

    @staticmethod
    def _choice_group(m):
        """The Group object (kind choice) that directly holds member m's item."""
        from .model import Group
        owner = m["owner"]

        def find(g):
            for it in g.items:
                if isinstance(it, Group):
                    if it.kind == "choice" and any(x is m["item"] for x in it.items):
                        return it
                    f = find(it)
                    if f is not None:
                        return f
            return None
        return find(owner.content.group)

    def values_for(self, comp, n=6):
        modes = ["min", "full", "many", "lo", "hi", "rand", "rand", "rand"][:n]
        return [self.complex(comp, mo) for mo in modes]


def has_nontrivial_member(v):
    return v[0] == "c" and any(x not in (None, []) for x in v[2])
