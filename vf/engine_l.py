"""Engine L: the library under direct robustness / fault workloads through tools/zdrive (C11, C12, C13, C15)."""
import glob
import hashlib
import itertools
import json
import os
import re
import shutil
import subprocess

from . import common
from .common import Verdict, Inconclusive, rng

TAGS = ["Alpha", "Bravo", "Charlie", "Delta", "Echo", "Foxtrot", "Golf", "Hotel"]


# =========================================================================================== C11

def _reach(n, mask, start):
    seen = {start}
    stack = [start]
    while stack:
        i = stack.pop()
        for j in range(n):
            if mask >> (i * n + j) & 1 and j not in seen:
                seen.add(j)
                stack.append(j)
    return seen


def _shape(n, mask, start):
    """Abstract shape of the part of the graph reachable from start (signature vocabulary)."""
    reach = _reach(n, mask, start)
    edges = [(i, j) for i in reach for j in range(n) if mask >> (i * n + j) & 1]
    if any(i == j for i, j in edges):
        return "self-loop"
    es = set(edges)
    if any((j, i) in es for i, j in edges):
        return "2-cycle"
    # longer cycle: DFS colouring
    adj = {i: [j for (a, j) in edges if a == i] for i in reach}
    colour = {}

    def dfs(u):
        colour[u] = 1
        for w in adj.get(u, []):
            if colour.get(w) == 1:
                return True
            if w not in colour and dfs(w):
                return True
        colour[u] = 2
        return False

    if dfs(start):
        return "longer-cycle"
    indeg = {}
    for _, j in edges:
        indeg[j] = indeg.get(j, 0) + 1
    if any(v > 1 for v in indeg.values()):
        return "diamond"
    if len(reach) == 1:
        return "single"
    return "tree"


def _expected_structs(reach):
    exp = []
    for i in reach:
        exp.append("Code" + TAGS[i])
        exp.append("Rec" + TAGS[i])
    return sorted(exp)


LAYOUTS = ["imports-first", "annotation-before-imports", "annotation-after-first-import", "comment-and-pi-between-imports",
           "import-with-annotation-child", "schemaLocation-before-namespace", "annotation-after-every-import",
           "schemaLocation-with-dot-slash", "schemaLocation-with-dot-slashes"]


def _judge_c11(v, job, res, stats):
    n, mask, start = job["n"], job["mask"], job["start_idx"]
    shape = _shape(n, mask, start)
    if job.get("layout"):
        shape += "|import-layout=" + LAYOUTS[job["layout"]]
    ns_of = job.get("ns_of") or list(range(n))
    if job.get("ns_of"):
        shape += "|files-share-a-namespace"
    where = {"n": n, "mask": mask, "start": start, "dup": job.get("dup", False), "layout": LAYOUTS[job.get("layout", 0)],
             "edges": [(i, j) for i in range(n) for j in range(n) if mask >> (i * n + j) & 1]}
    if res.get("watchdog"):
        stats["inconclusive"] += 1
        return None
    if "died" in res:
        kind = common.classify_death(res)
        cls = "nontermination" if kind == "cpu-limit" else "crash"
        v.violation(f"C11|{cls}|how={kind}|shape={shape}", {"job": where, "stderr": res.get("stderr", "")[-300:]})
        return None
    call = res["calls"][0]
    stats["outcomes"][call["outcome"]] = stats["outcomes"].get(call["outcome"], 0) + 1
    if call["outcome"] == "panic":
        v.violation(f"C11|crash|how=panic|shape={shape}", {"job": where, "panic": call.get("panic")})
        return None
    if call["outcome"] != "ok":
        v.violation(f"C11|rejected|variant={call.get('err', {}).get('variant')}|shape={shape}",
                    {"job": where, "err": call.get("err")})
        return None
    if "structs" not in call:
        v.violation(f"C11|output-unparsable|shape={shape}", {"job": where, "error": call.get("structs_error")})
        return None
    helper_mods = ("error", "helpers", "restrictions", "multi_ref")
    got = sorted(name for mod, name in call["structs"] if mod.split("::")[0] not in helper_mods)
    reach = _reach(n, mask, start)
    exp = _expected_structs(reach)
    stats["components_compared"] += len(exp)
    if got != exp:
        gs, es = set(got), set(exp)
        all_names = set(_expected_structs(range(n)))
        if es - gs:
            v.violation(f"C11|component-missing|shape={shape}", {"job": where, "missing": sorted(es - gs), "got": got})
        if any(got.count(x) > 1 for x in gs):
            v.violation(f"C11|component-duplicate|shape={shape}",
                        {"job": where, "duplicates": sorted(x for x in gs if got.count(x) > 1)})
        if (gs - es) & all_names:
            v.violation(f"C11|component-unreachable-leak|shape={shape}", {"job": where, "leaked": sorted((gs - es) & all_names)})
        if gs - all_names:
            v.violation(f"C11|component-unexpected|shape={shape}", {"job": where, "unexpected": sorted(gs - all_names)})
    # every reachable namespace in exactly one module
    mods = {}
    for mod, name in call["structs"]:
        if name in exp:
            mods.setdefault(name[4:] if name.startswith("Code") else name[3:], set()).add(mod)
    for tag, ms in mods.items():
        if len(ms) != 1:
            v.violation(f"C11|namespace-split-over-modules|shape={shape}", {"job": where, "tag": tag, "modules": sorted(ms)})
        elif "" in ms:
            # every file has a target namespace, so its components belong into that namespace's module
            v.violation(f"C11|component-outside-its-namespace-module|shape={shape}", {"job": where, "tag": tag})
    owners = {}
    for tag, ms in mods.items():
        for mo in ms:
            owners.setdefault(mo, set()).add(ns_of[TAGS.index(tag)])
    for mo, tags in owners.items():
        if mo and len(tags) > 1:
            v.violation(f"C11|two-files-in-one-module|shape={shape}", {"job": where, "module": mo, "files": sorted(tags)})
    return call.get("sha")


SIB_VALID = ('<?xml version="1.0"?><xs:schema xmlns:xs="http://www.w3.org/2001/XMLSchema" '
             'targetNamespace="http://zv.test/schemas/zulu" elementFormDefault="qualified">'
             '<xs:complexType name="RecZulu"><xs:sequence><xs:element name="z" type="xs:string"/></xs:sequence></xs:complexType>'
             '</xs:schema>')
SIBLINGS = {
    "valid-unrelated": {"zz_unrelated.xsd": SIB_VALID},
    "malformed": {"zz_broken.xsd": "<xs:schema xmlns:xs='http://www.w3.org/2001/XMLSchema'><xs:complexType name='Oops'>"},
    "non-schema-xml": {"zz_other.xsd": "<?xml version='1.0'?><html><body>not a schema</body></html>"},
    "empty": {"zz_empty.xsd": ""},
    "binary-ish": {"zz_bin.xsd": "\x00\x01\x02 not xml at all �"},
    "same-namespace-clone": {"zz_clone.xsd": SIB_VALID.replace("zulu", "alpha").replace("RecZulu", "RecAlpha")},
    # an unreachable sibling that no parser could survive (nested 30 000 deep) or that is simply huge: nobody reads it
    "deeply-nested-unrelated": {"zz_deep.xsd": "<n>" * 30000 + "</n>" * 30000},
    "large-unrelated": {"zz_large.xsd": SIB_VALID.replace("</xs:schema>", "<!-- " + "x" * 3_000_000 + " --></xs:schema>")},
    # file names are case-sensitive: F0.xsd is not f0.xsd, whatever it contains
    "case-twin-names": {"F0.xsd": SIB_VALID, "F1.XSD": SIB_VALID.replace("zulu", "yankee").replace("RecZulu", "RecYankee"),
                        "f2.XSD": SIB_VALID.replace("zulu", "xray").replace("RecZulu", "RecXray"), "F3.Xsd": SIB_VALID},
}


def c11(tier):
    v = Verdict("C11", tier, "exploration")
    zdrive = common.build_tool("zdrive")
    r = rng("C11")
    jobs = []
    sizes = [1, 2, 3] if tier == "quick" else [1, 2, 3, 4]
    for n in sizes:
        for mask in range(1 << (n * n)):
            for s in range(n):
                jobs.append({"op": "c11graph", "n": n, "mask": mask, "start_idx": s})
    n_exhaustive = len(jobs)
    # duplicated import elements: all graphs over <= 3 files
    for n in [1, 2, 3]:
        for mask in range(1 << (n * n)):
            if mask == 0:
                continue
            if n == 3 and tier == "quick" and r.random() > 0.25:
                continue
            jobs.append({"op": "c11graph", "n": n, "mask": mask, "start_idx": r.randrange(n), "dup": True})
    # what XSD allows around the imports (annotation*, comments, non-empty import elements, attribute order)
    for layout in range(1, len(LAYOUTS)):
        for n in [1, 2, 3]:
            for mask in range(1 << (n * n)):
                if mask == 0:
                    continue
                for s in range(n):
                    if n == 3 and tier == "quick" and r.random() > 0.2:
                        continue
                    jobs.append({"op": "c11graph", "n": n, "mask": mask, "start_idx": s, "layout": layout,
                                 "dup": r.random() < 0.1})
        for k in range(40 if tier == "quick" else 1500):
            n = r.randrange(4, 8)
            mask = 0
            for b in range(n * n):
                if r.random() < 0.3:
                    mask |= 1 << b
            jobs.append({"op": "c11graph", "n": n, "mask": mask, "start_idx": r.randrange(n), "layout": layout})
    # one namespace spread over several files (imported by namespace + schemaLocation like any other file)
    for ns_of in ([0, 0], [0, 0, 0], [0, 0, 2], [0, 1, 1], [0, 1, 0], [0, 1, 0, 1], [0, 0, 0, 3]):
        n = len(ns_of)
        masks = range(1, 1 << (n * n)) if n == 2 else [r.randrange(1, 1 << (n * n)) for _ in range(60 if tier == "quick" else 1500)]
        for mask in masks:
            jobs.append({"op": "c11graph", "n": n, "mask": mask, "start_idx": r.randrange(n), "ns_of": ns_of,
                         "layout": r.choice([0, 0, 1, 2])})
    # random graphs over 5..8 files, sparse and dense
    for k in range(96 if tier == "quick" else 4000):
        n = r.randrange(5, 9)
        dens = r.choice([0.08, 0.15, 0.3, 0.6])
        mask = 0
        for b in range(n * n):
            if r.random() < dens:
                mask |= 1 << b
        jobs.append({"op": "c11graph", "n": n, "mask": mask, "start_idx": r.randrange(n), "dup": r.random() < 0.2})
    # (quick) a seeded sample of 4-file graphs so that every run sees some
    if tier == "quick":
        for k in range(600):
            jobs.append({"op": "c11graph", "n": 4, "mask": r.randrange(1 << 16), "start_idx": r.randrange(4)})
    for i, j in enumerate(jobs):
        j["id"] = i
        j["cpu_budget_s"] = 10
    results = common.run_jobs(zdrive, jobs, nworkers=16)
    stats = {"outcomes": {}, "components_compared": 0, "inconclusive": 0}
    shas = {}
    shapes = {}
    for job, res in zip(jobs, results):
        sha = _judge_c11(v, job, res, stats)
        shas[job["id"]] = sha
        sh = _shape(job["n"], job["mask"], job["start_idx"])
        shapes[sh] = shapes.get(sh, 0) + 1

    # sibling variation: same reachable content, different unreachable surroundings → identical bytes
    base = [j for j in jobs if not j.get("dup") and shas.get(j["id"])]
    r2 = rng("C11", "siblings")
    sample = r2.sample(base, min(len(base), 120 if tier == "quick" else 1500))
    sib_jobs = []
    for j in sample:
        n, mask, s = j["n"], j["mask"], j["start_idx"]
        unreach = sorted(set(range(n)) - _reach(n, mask, s))
        for name, extra in SIBLINGS.items():
            sib_jobs.append(dict(j, extra=extra, variant=name, base_id=j["id"]))
        if unreach:
            sib_jobs.append(dict(j, replace={str(u): SIBLINGS["malformed"]["zz_broken.xsd"] for u in unreach},
                                 variant="unreachable-replaced-by-malformed", base_id=j["id"]))
            sib_jobs.append(dict(j, remove=unreach, variant="unreachable-removed", base_id=j["id"]))
            sib_jobs.append(dict(j, replace={str(unreach[0]): SIB_VALID}, variant="unreachable-replaced-by-other-schema",
                                 base_id=j["id"]))
    for i, j in enumerate(sib_jobs):
        j["id"] = 10_000_000 + i
    sib_results = common.run_jobs(zdrive, sib_jobs, nworkers=16)
    sib_compared = 0
    sib_variants = {}
    for j, res in zip(sib_jobs, sib_results):
        if res.get("watchdog"):
            stats["inconclusive"] += 1
            continue
        where = {"n": j["n"], "mask": j["mask"], "start": j["start_idx"], "variant": j["variant"]}
        if "died" in res:
            v.violation(f"C11|sibling-dependence|sibling={j['variant']}|effect={common.classify_death(res)}", {"job": where})
            continue
        call = res["calls"][0]
        sib_compared += 1
        sib_variants[j["variant"]] = sib_variants.get(j["variant"], 0) + 1
        if call["outcome"] != "ok":
            v.violation(f"C11|sibling-dependence|sibling={j['variant']}|effect={call['outcome']}",
                        {"job": where, "err": call.get("err"), "panic": call.get("panic")})
        elif call["sha"] != shas[j["base_id"]]:
            v.violation(f"C11|sibling-dependence|sibling={j['variant']}|effect=bytes-differ", {"job": where})

    # directory mode: the helper that enumerates the directory itself, with siblings that only a file system can hold
    import shutil
    droot = common.scratch("c11dir")
    dir_jobs = []
    try:
        for k, j in enumerate(r2.sample(base, min(len(base), 24 if tier == "quick" else 200))):
            n, mask, s = j["n"], j["mask"], j["start_idx"]
            render = subprocess.run([zdrive, "c11render", str(n), str(mask), str(j.get("layout", 0)),
                                     ",".join(map(str, j.get("ns_of") or []))], stdout=subprocess.PIPE, env=common.ENV).stdout.decode()
            texts = {}
            cur = None
            for line in render.splitlines(True):
                if line.startswith("--- f") and line.strip().endswith(".xsd"):
                    cur = line.strip()[4:]
                    texts[cur] = ""
                elif cur is not None:
                    texts[cur] += line
            for variant in ("plain", "invalid-utf8-sibling", "directory-named-xsd", "dangling-symlink", "fifo-like-empty", "uppercase-extension",
                            "every-sibling-a-symlink", "file-names-with-dots-and-non-ascii", "sibling-name-not-utf8",
                            "every-file-starts-with-a-byte-order-mark", "siblings-start-with-a-byte-order-mark",
                            "siblings-with-xml-schema-as-default-namespace"):
                d = os.path.join(droot, f"g{k}-{variant}")
                os.makedirs(d)
                if variant == "file-names-with-dots-and-non-ascii":
                    # the same graph under other file names (several dots, non-ASCII letters, a doubled extension, upper case in the
                    # stem): every name ends in .xsd, every schemaLocation says the new name
                    pool = ["common.v1.xsd", "a.b.c.xsd", "types.xsd.xsd", "ünï-cödé.xsd", "Upper.Case.xsd", "x_y-z.2024.01.xsd", "1.xsd", "v2.0-final.xsd"]
                    rot = k % len(pool)
                    new_name = {f"f{i}.xsd": pool[(i + rot) % len(pool)] for i in range(n)}
                    for name, t in texts.items():
                        # (the location may be spelt "./f1.xsd")
                        t = re.sub(r'(?<=["/])f\d+\.xsd(?=")', lambda m: new_name.get(m.group(0), m.group(0)), t)
                        with open(os.path.join(d, new_name[name]), "w", encoding="utf-8") as fh:
                            fh.write(t)
                    dir_jobs.append({"id": 20_000_000 + len(dir_jobs), "op": "gen", "dir": d, "start": new_name[f"f{s}.xsd"], "variant": variant,
                                     "base_id": j["id"], "cpu_budget_s": 10, "where": {"n": n, "mask": mask, "start": s}})
                    continue
                for name, t in texts.items():
                    if variant == "every-sibling-a-symlink" and name != f"f{s}.xsd":
                        # the real files live elsewhere under other names; the directory holds links to them
                        real = os.path.join(droot, f"g{k}-store")
                        os.makedirs(real, exist_ok=True)
                        with open(os.path.join(real, "real-" + name + ".txt"), "w") as fh:
                            fh.write(t)
                        os.symlink(os.path.join(real, "real-" + name + ".txt"), os.path.join(d, name))
                        continue
                    if variant == "siblings-with-xml-schema-as-default-namespace" and name != f"f{s}.xsd":
                        # the same schema spelt without a prefix for XML Schema: <schema xmlns="…XMLSchema">, type="string"
                        t = t.replace("<xs:", "<").replace("</xs:", "</").replace('xmlns:xs="', 'xmlns="').replace('="xs:', '="')
                    with open(os.path.join(d, name), "w") as fh:
                        # (the mark Windows editors put in front of <?xml: U+FEFF, three bytes in UTF-8)
                        if variant == "every-file-starts-with-a-byte-order-mark" or (variant == "siblings-start-with-a-byte-order-mark" and name != f"f{s}.xsd"):
                            fh.write("\ufeff")
                        fh.write(t)
                if variant == "invalid-utf8-sibling":
                    with open(os.path.join(d, "zz_latin1.xsd"), "wb") as fh:
                        fh.write(b"<?xml version='1.0' encoding='ISO-8859-1'?><a>\xe9\xff\xfe</a>")
                elif variant == "directory-named-xsd":
                    os.makedirs(os.path.join(d, "zz_dir.xsd"))
                elif variant == "dangling-symlink":
                    os.symlink(os.path.join(d, "nowhere.xsd"), os.path.join(d, "zz_link.xsd"))
                elif variant == "fifo-like-empty":
                    open(os.path.join(d, "zz_empty.xsd"), "w").close()
                elif variant == "sibling-name-not-utf8":
                    # a file name is bytes: one that is not text can not be meant by any schemaLocation
                    with open(os.fsencode(d) + b"/zz_\xff\xfe.xsd", "wb") as fh:
                        fh.write(SIB_VALID.encode())
                elif variant == "uppercase-extension":
                    with open(os.path.join(d, "ZZ_OTHER.XSD"), "w") as fh:
                        fh.write("<broken")
                dir_jobs.append({"id": 20_000_000 + len(dir_jobs), "op": "gen", "dir": d, "start": f"f{s}.xsd", "variant": variant,
                                 "base_id": j["id"], "cpu_budget_s": 10, "where": {"n": n, "mask": mask, "start": s}})
        dir_results = common.run_jobs(zdrive, dir_jobs, nworkers=16)
    finally:
        shutil.rmtree(droot, ignore_errors=True)
    for j, res in zip(dir_jobs, dir_results):
        if res.get("watchdog") or "died" in res:
            v.violation(f"C11|sibling-dependence|sibling={j['variant']}|effect=died-or-hung|mode=directory", {"job": j["where"]})
            continue
        call = res["calls"][0]
        sib_compared += 1
        sib_variants["dir:" + j["variant"]] = sib_variants.get("dir:" + j["variant"], 0) + 1
        if call["outcome"] != "ok":
            v.violation(f"C11|sibling-dependence|sibling={j['variant']}|effect={call['outcome']}|mode=directory",
                        {"job": j["where"], "err": call.get("err"), "panic": call.get("panic")})
        elif call["sha"] != shas[j["base_id"]]:
            v.violation(f"C11|sibling-dependence|sibling={j['variant']}|effect=bytes-differ|mode=directory", {"job": j["where"]})

    evaluated = len(jobs) - stats["inconclusive"]
    cov = {
        "evaluations": evaluated + sib_compared,
        "distinct_nontrivial": sum(1 for j in jobs if bin(j["mask"]).count("1") > 0),
        "rule": "import graphs as adjacency masks over files f0..f(n-1) (bit i*n+j: fi imports fj; self-loops allowed), rendered by "
                "zdrive with two uniquely named components per file and cross-file type references along the edges; "
                "quick: every graph over n<=3 files x every start file (exhaustive), duplicated <xs:import> variants, import layouts (schema-level annotation before / between / after the imports, "
                "comment and processing instruction between them, non-empty import elements, attribute order) over every graph of n<=2 files "
                "and a sample of 3-7 file graphs, "
                "random graphs over 5-8 files, a seeded sample of 4-file graphs; thorough: every graph over n<=4 x every start "
                "(2^16 x 4). Non-trivial = at least one import edge; distinct = distinct (n, mask, start, dup) tuples (all jobs are "
                "distinct by construction). Oracle: multiset of struct names in the output (parsed with syn) == components of the "
                "files reachable from the start file in the model graph, each once, one module per namespace; sibling runs: "
                "byte-identical output with unreachable siblings added/replaced/removed",
        "exhaustive": True,
        "exhaustive_scope": f"all graphs over n<={sizes[-1]} files x all start files ({n_exhaustive} runs); the 5-8 file graphs are sampled",
        "graphs_run": len(jobs), "outcomes": stats["outcomes"], "components_compared": stats["components_compared"],
        "reachable_shapes_seen": shapes,
        "graphs_with_files_sharing_a_namespace": sum(1 for j in jobs if j.get("ns_of")),
        "import_layouts": {LAYOUTS[k]: sum(1 for j in jobs if j.get("layout", 0) == k) for k in range(len(LAYOUTS))}, "sibling_comparisons": sib_compared, "sibling_variants": sib_variants,
        "inconclusive_cases": stats["inconclusive"],
        "samples": [
            {"n": j["n"], "mask": j["mask"], "start": j["start_idx"],
             "edges": [(a, b) for a in range(j["n"]) for b in range(j["n"]) if j["mask"] >> (a * j["n"] + b) & 1],
             "reachable": sorted(_reach(j["n"], j["mask"], j["start_idx"])),
             "expected_structs": _expected_structs(_reach(j["n"], j["mask"], j["start_idx"]))}
            for j in [jobs[min(len(jobs) - 1, k)] for k in (3, 40, 700, len(jobs) - 5)]
        ],
    }
    if stats["inconclusive"] > len(jobs) * 0.1:
        v.inconclusive = f"{stats['inconclusive']} of {len(jobs)} runs hit the wall-clock watchdog"
    v.finish(cov, assumptions=[
        "library entry points Files::new/add, FilesToRead::new, XmlReader::read_xml, write_xml (public API) via tools/zdrive",
        "struct names are read from the emitted text with syn; helper modules (error, helpers, restrictions, multi_ref) are ignored",
        "CPU budget 10 s per graph (inputs are < 2 kB); 8 MiB stack like the CLI's main thread",
    ], min_evaluations=1000)


# =========================================================================================== corpus helpers

def repo_corpus():
    """[(label, dir, start-file)] for every schema/WSDL shipped in the repository."""
    out = []
    for base in ("resources", "zeep-lib/test-data"):
        for p in sorted(glob.glob(os.path.join(common.REPO, base, "**", "*"), recursive=True)):
            if os.path.isfile(p) and p.lower().endswith((".xsd", ".wsdl")) or p.endswith("_wsdl.xml"):
                out.append((os.path.relpath(p, common.REPO), os.path.dirname(p), os.path.basename(p)))
    return out


def read_dir_files(d, start):
    """The file set the library helper would register: start + sibling *.xsd (contents as text, lossy)."""
    files = {}
    for name in sorted(os.listdir(d)):
        p = os.path.join(d, name)
        if os.path.isfile(p) and (name == start or name.endswith(".xsd")):
            try:
                files[name] = open(p, encoding="utf-8").read()
            except UnicodeDecodeError:
                files[name] = open(p, encoding="utf-8", errors="replace").read()
    return files


def generated_sets(tag, n):
    """File sets from the engine-G generator (multi-file, imports incl. cycles, WSDLs with multi-part messages)."""
    from . import gen, render
    out = []
    for i in range(n):
        wsdl = i % 2 == 0
        cfg = gen.cfg_with(files=(2, 4), wsdl=wsdl, ops=(2, 5), headers=(0, 2), p_parts_attr=0.4)
        ss = gen.generate(rng(tag, "generated", i), cfg)
        out.append((f"generated-{'wsdl' if wsdl else 'xsd'}-{i}", render.render_set(ss), ss.start))
    return out


def synth_wsdl(r, n_ops, headers=True, parts_attr=None, styles=None, n_groups=1):
    """A small document/literal WSDL with n_ops operations; message parts and header bindings vary.
    Only used as a *workload* for C12/C13/C15 (no correctness oracle is attached to its content)."""
    words = ["alpha", "bravo", "charlie", "delta", "echo", "foxtrot", "golf", "hotel", "india", "juliet", "kilo", "lima"]
    ops = r.sample(words, n_ops)
    tns = "http://zv.test/svc/" + r.choice(["orders", "billing", "stock"])
    x = []
    x.append(f'<?xml version="1.0"?>\n<wsdl:definitions xmlns:wsdl="http://schemas.xmlsoap.org/wsdl/" '
             f'xmlns:soap="http://schemas.xmlsoap.org/wsdl/soap/" xmlns:xs="http://www.w3.org/2001/XMLSchema" '
             f'xmlns:tns="{tns}" targetNamespace="{tns}" name="Svc">\n<wsdl:types>\n'
             f'<xs:schema targetNamespace="{tns}" elementFormDefault="qualified">\n')
    x.append('<xs:simpleType name="Code"><xs:annotation><xs:documentation>A code\nin two lines</xs:documentation></xs:annotation>'
             '<xs:restriction base="xs:string"><xs:maxLength value="8"/><xs:enumeration value="A"/><xs:enumeration value="B"/>'
             '<xs:enumeration value="C"/><xs:enumeration value="A"/><xs:enumeration value="D"/><xs:enumeration value="E"/><xs:enumeration value="F"/>'
             '</xs:restriction></xs:simpleType>\n')
    x.append('<xs:complexType name="Auth"><xs:annotation><xs:documentation>Credentials</xs:documentation></xs:annotation>'
             '<xs:sequence><xs:element name="User" type="xs:string"/><xs:element name="Token" type="xs:string" minOccurs="0"/>'
             '</xs:sequence><xs:attribute name="realm" type="xs:string"/></xs:complexType>\n')
    x.append('<xs:element name="AuthHeader" type="tns:Auth"/>\n<xs:element name="TraceHeader"><xs:complexType><xs:sequence>'
             '<xs:element name="Id" type="xs:long"/></xs:sequence></xs:complexType></xs:element>\n')
    for o in ops:
        O = o.capitalize()
        x.append(f'<xs:element name="{O}Request"><xs:complexType><xs:sequence><xs:element name="Code" type="tns:Code"/>'
                 f'<xs:element name="Qty" type="xs:int" minOccurs="0"/><xs:element name="Tag" type="xs:string" minOccurs="0" '
                 f'maxOccurs="unbounded"/></xs:sequence></xs:complexType></xs:element>\n')
        x.append(f'<xs:element name="{O}Response"><xs:complexType><xs:sequence><xs:element name="Ok" type="xs:boolean"/>'
                 f'</xs:sequence></xs:complexType></xs:element>\n')
    x.append('</xs:schema>\n</wsdl:types>\n')
    oneway = set()
    hdrs = {}
    multi = {}
    for o in ops:
        O = o.capitalize()
        nh = r.randrange(0, 3) if headers else 0
        hdrs[o] = nh
        parts = [f'<wsdl:part name="parameters" element="tns:{O}Request"/>']
        # some messages carry further parts that no header names (all unbound parts belong to the body in WSDL 1.1)
        extra = r.randrange(0, 3) if r.random() < 0.4 else 0
        multi[o] = extra
        if extra >= 1:
            parts.append('<wsdl:part name="audit" element="tns:TraceHeader"/>')
        if extra >= 2:
            parts.append('<wsdl:part name="paging" element="tns:AuthHeader"/>')
        if nh >= 1:
            parts.append('<wsdl:part name="auth" element="tns:AuthHeader"/>')
        if nh >= 2:
            parts.append('<wsdl:part name="trace" element="tns:TraceHeader"/>')
        r.shuffle(parts)
        x.append(f'<wsdl:message name="{O}In">{"".join(parts)}</wsdl:message>\n')
        if r.random() < 0.2:
            oneway.add(o)
        else:
            x.append(f'<wsdl:message name="{O}Out"><wsdl:part name="parameters" element="tns:{O}Response"/></wsdl:message>\n')
    # n_groups port types with a binding and a port each, the operations dealt out among them
    k = max(1, min(n_groups, len(ops)))
    groups = [ops[i::k] for i in range(k)]
    ports = []
    for gi, gops in enumerate(groups):
      sfx = "" if k == 1 else str(gi + 1)
      ports.append(f'<wsdl:port name="SvcPort{sfx}" binding="tns:SvcBinding{sfx}"><soap:address location="http://127.0.0.1:9/svc{sfx}"/></wsdl:port>')
      x.append(f'<wsdl:portType name="SvcPort{sfx}">\n')
      for o in gops:
        O = o.capitalize()
        out = "" if o in oneway else f'<wsdl:output message="tns:{O}Out"/>'
        x.append(f'<wsdl:operation name="{O}"><wsdl:input message="tns:{O}In"/>{out}</wsdl:operation>\n')
      x.append(f'</wsdl:portType>\n<wsdl:binding name="SvcBinding{sfx}" type="tns:SvcPort{sfx}">\n'
               '<soap:binding style="document" transport="http://schemas.xmlsoap.org/soap/http"/>\n')
      for o in gops:
          O = o.capitalize()
          use_parts = parts_attr if parts_attr is not None else (r.random() < 0.5 and not multi.get(o))
          body = '<soap:body use="literal" parts="parameters"/>' if use_parts else '<soap:body use="literal"/>'
          h = ""
          if hdrs[o] >= 1:
              h += f'<soap:header message="tns:{O}In" part="auth" use="literal"/>'
          if hdrs[o] >= 2:
              h += f'<soap:header message="tns:{O}In" part="trace" use="literal"/>'
          out_parts = ' parts="parameters"' if r.random() < 0.4 else ""
          out = "" if o in oneway else f'<wsdl:output><soap:body use="literal"{out_parts}/></wsdl:output>'
          action = f'http://zv.test/actions/{O}' if r.random() < 0.7 else ""
          x.append(f'<wsdl:operation name="{O}"><soap:operation soapAction="{action}"/><wsdl:input>{h}{body}</wsdl:input>{out}'
                   f'</wsdl:operation>\n')
      x.append('</wsdl:binding>\n')
    x.append('<wsdl:service name="Svc">' + "".join(ports) + '</wsdl:service>\n</wsdl:definitions>\n')
    return "".join(x), {"ops": ops, "headers": hdrs, "oneway": sorted(oneway), "multi_part_bodies": multi}


# =========================================================================================== C12

def _fresh_process_gen(zdrive, job):
    """One fresh process (fresh RandomState keys) per call."""
    w = common.ZWorker(zdrive)
    try:
        return w.run(job, wall_timeout=120)
    finally:
        w.close()


def _first_diff(a, b):
    la, lb = a.splitlines(), b.splitlines()
    for i, (x, y) in enumerate(zip(la, lb)):
        if x != y:
            return i + 1, x[:160], y[:160]
    return min(len(la), len(lb)) + 1, "<end>", "<end>"


def _diff_class(a, b):
    """Abstract description of where two outputs differ (signature vocabulary)."""
    if not b.strip() or len(b) < len(a) / 4:
        return "second-output-truncated-or-empty"
    line, x, y = _first_diff(a, b)
    if x.lstrip().startswith("/*") or "InputEnvelope" in x or "OutputEnvelope" in x:
        return "operation-order"
    if "pub async fn" in x:
        return "method-order"
    if "pub mod" in x:
        return "module-order"
    if "rename" in x or "prefix" in x:
        return "member-choice"
    return "other"


def c12(tier):
    v = Verdict("C12", tier, "exploration")
    zdrive = common.build_tool("zdrive")
    r = rng("C12")
    inputs = []   # (label, files, start, distinguishing power)
    for label, d, start in repo_corpus():
        inputs.append((label, read_dir_files(d, start), start))
    n_synth = 14 if tier == "quick" else 80
    for k in range(n_synth):
        groups = 1 + k % 3          # one, two or three port types with a binding and a port each
        text, meta = synth_wsdl(rng("C12", "synth", k), 2 + k % 7, headers=True, n_groups=groups)
        inputs.append((f"synth-wsdl-{k}-ops{len(meta['ops'])}-bindings{min(groups, len(meta['ops']))}", {"svc.wsdl": text}, "svc.wsdl"))
    inputs += generated_sets("C12", 10 if tier == "quick" else 60)
    # the same sets with siblings whose names differ from a used file's name only in case (other content): which of the two is
    # read must not depend on the order of registration or enumeration
    for label, files, start in [i for i in inputs if i[0].startswith("generated-")][: 6 if tier == "quick" else 40]:
        twins = {}
        for n in sorted(files):
            alt = n.upper() if n.upper() != n else n.lower()
            twins[alt] = SIB_VALID.replace("zulu", "twin" + n.split(".")[0]).replace("RecZulu", "RecTwin")
        inputs.append((label + "+case-twin-siblings", dict(files, **twins), start))
    # inputs that fail after the start file was entered: the outcome of every later call on the same object must not change
    from . import gen_invalid
    A = gen_invalid.schema
    good = '<xs:complexType name="C"><xs:sequence><xs:element name="a" type="xs:int"/></xs:sequence></xs:complexType>'
    imp = '<xs:import namespace="http://zv.test/b" schemaLocation="b.xsd"/>'
    failing = {
        "dangling-import": ({"a.xsd": A(imp + good)}, "a.xsd"),
        "malformed-imported-sibling": ({"a.xsd": A(imp + good), "b.xsd": "<xs:schema"}, "a.xsd"),
        "unresolved-base-after-components": ({"a.xsd": A(good + '<xs:complexType name="D"><xs:complexContent><xs:extension base="t:Nowhere">'
                                                         '<xs:sequence/></xs:extension></xs:complexContent></xs:complexType>')}, "a.xsd"),
        "failing-import-of-a-good-file's-import": ({"a.xsd": A(imp + good), "b.xsd": A('<xs:import namespace="http://zv.test/c" schemaLocation="c.xsd"/>' + good, tns="http://zv.test/b")}, "a.xsd"),
        "wsdl-unknown-message": ({"a.wsdl": gen_invalid.wsdl(types=gen_invalid.GOOD_TYPES, messages=gen_invalid.GOOD_MSG.replace('name="Out"', 'name="Other"'),
                                                         port=gen_invalid.GOOD_PORT, binding=gen_invalid.GOOD_BIND, service=gen_invalid.GOOD_SVC)}, "a.wsdl"),
    }
    for k, (files, start) in failing.items():
        inputs.append((f"failing:{k}", files, start))
    # an import without schemaLocation, and several siblings that declare the imported namespace: whatever the reader does with
    # them (nothing, today), it must not depend on hashing or registration order
    cand = lambda tag: A(f'<xs:complexType name="Cand{tag}"><xs:sequence><xs:element name="v" type="xs:int"/></xs:sequence></xs:complexType>', tns="http://zv.test/b")   # noqa: E731
    inputs.append(("locationless-import-with-candidate-siblings",
                   {"a.xsd": A('<xs:import namespace="http://zv.test/b"/>' + good), "b1.xsd": cand("One"), "b2.xsd": cand("Two"), "b3.xsd": cand("Three"),
                    "b4.xsd": cand("Four")}, "a.xsd"))
    # file sets that have a namespace in common but give it different prefixes (alone it is `typ`, after another `.../types`
    # namespace it is `typ1`): what one input was given must not carry over to the next input of the same process
    one = A('<xs:import namespace="http://zv.test/h/two/types" schemaLocation="two.xsd"/>' + good, tns="http://zv.test/h/one/types")
    two = A(good.replace('"C"', '"D"'), tns="http://zv.test/h/two/types")
    two_first = A('<xs:import namespace="http://zv.test/h/one/types" schemaLocation="one.xsd"/>' + good.replace('"C"', '"D"'), tns="http://zv.test/h/two/types")
    one_alone = A(good, tns="http://zv.test/h/one/types")
    inputs.append(("shared-namespace:one-imports-two", {"one.xsd": one, "two.xsd": two}, "one.xsd"))
    inputs.append(("shared-namespace:two-alone", {"two.xsd": two}, "two.xsd"))
    inputs.append(("shared-namespace:two-imports-one", {"two.xsd": two_first, "one.xsd": one_alone}, "two.xsd"))
    inputs.append(("shared-namespace:one-alone", {"one.xsd": one_alone}, "one.xsd"))
    refs = {}
    rejected_checked = 0
    n_proc = 8 if tier == "quick" else 32
    scratchdir = common.scratch("c12")
    evaluated = 0
    distinct_outputs = {}
    accepted = 0
    executions = 0
    samples = []
    import concurrent.futures as cf
    pool = cf.ThreadPoolExecutor(max_workers=16)

    def one_input(item):
        label, files, start = item
        recs = []
        base_job = {"id": 0, "op": "gen", "files": files, "start": start, "cpu_budget_s": 60, "want_text": True}
        first = _fresh_process_gen(zdrive, base_job)
        if "calls" not in first:
            return label, "died", [("process", common.classify_death(first) if "died" in first else "watchdog", None)], 1, 0
        c0 = first["calls"][0]
        if c0["outcome"] != "ok":
            # an input that is refused must be refused the same way by every further call on the same input object (and in a
            # fresh process): a call history err, ok, err is as much a dependence on history as differing bytes
            def oc(call):
                e = call.get("err") or {}
                return (call.get("outcome"), e.get("variant"), _norm_msg(e.get("msg")))
            ref = oc(c0)
            nexec = 1
            for job in (dict(base_job, calls=4), dict(base_job, threads=3, calls=3), dict(base_job)):
                res = _fresh_process_gen(zdrive, job)
                calls = list(res.get("calls", [])) + [c for t in res.get("threads", []) for c in t.get("calls", [])]
                for ci, call in enumerate(calls):
                    nexec += 1
                    if oc(call) != ref:
                        recs.append(("repeat-call" if ci else "process", "outcome-changes",
                                     {"first": list(ref), "later": list(oc(call)), "call_index": ci}))
            return label, "rejected", recs, nexec, 0
        ref_sha, ref_text = c0["sha"], c0["text"]
        refs[label] = (files, start, ref_sha, ref_text)
        shas = {ref_sha}
        execs = 1

        def compare(across, res_call):
            nonlocal execs
            execs += 1
            if res_call.get("outcome") != "ok":
                recs.append((across, "outcome-" + str(res_call.get("outcome")), res_call))
                return
            shas.add(res_call["sha"])
            if res_call["sha"] != ref_sha:
                recs.append((across, _diff_class(ref_text, res_call.get("text", "")),
                             {"first_diff": _first_diff(ref_text, res_call.get("text", ""))}))

        # fresh processes
        for _ in range(n_proc - 1):
            res = _fresh_process_gen(zdrive, base_job)
            if "calls" in res:
                compare("process", res["calls"][0])
            else:
                recs.append(("process", "died", res))
        # threads x repeated calls in one process; call histories of length 3 on one FilesToRead
        res = _fresh_process_gen(zdrive, dict(base_job, threads=4, calls=3))
        for t in res.get("threads", []):
            for ci, call in enumerate(t.get("calls", [])):
                compare("thread" if ci == 0 else "repeat-call", call)
        res = _fresh_process_gen(zdrive, dict(base_job, calls=3))
        for ci, call in enumerate(res.get("calls", [])):
            compare("process" if ci == 0 else "repeat-call", call)
        # registration orders
        names = sorted(files)
        if len(names) > 1:
            perms = list(itertools.permutations(names)) if len(names) <= 4 else \
                [tuple(rng("C12", "perm", label, i).sample(names, len(names))) for i in range(8)]
            for perm in perms[:24]:
                res = _fresh_process_gen(zdrive, dict(base_job, order=list(perm)))
                if "calls" in res:
                    compare("registration-order", res["calls"][0])
        # directory mode (the helper enumerates the directory itself) vs inline registration
        d = os.path.join(scratchdir, hashlib.sha1(label.encode()).hexdigest()[:10])
        os.makedirs(d, exist_ok=True)
        for n, c in files.items():
            with open(os.path.join(d, n), "w", encoding="utf-8") as f:
                f.write(c)
        res = _fresh_process_gen(zdrive, {"id": 0, "op": "gen", "dir": d, "start": start, "cpu_budget_s": 60, "want_text": True})
        if "calls" in res:
            compare("directory-enumeration", res["calls"][0])
        return label, "ok", recs, execs, len(shas)

    for label, status, recs, execs, nshas in pool.map(one_input, inputs):
        executions += execs
        if status == "rejected":
            rejected_checked += 1
            for across, where, detail in recs:
                v.violation(f"C12|differs|across={across}|where={where}", {"input": label, "detail": detail})
            continue
        accepted += 1
        evaluated += 1
        distinct_outputs[label] = nshas
        for across, where, detail in recs:
            v.violation(f"C12|differs|across={across}|where={where}", {"input": label, "detail": detail})
        if len(samples) < 6:
            samples.append({"input": label, "executions": execs, "distinct_outputs_seen": nshas})
    # histories over *different* inputs in one process: every output must be the one a fresh process gives for that input,
    # whatever the process generated before
    hist_labels = sorted(refs)
    shared = [lbl for lbl in hist_labels if lbl.startswith("shared-namespace:")]
    histories = [list(pm) for pm in itertools.permutations(shared, 2)] + [list(pm) for pm in itertools.permutations(shared, 3)][:: 1 if tier != "quick" else 2]
    hr = rng("C12", "histories")
    for _ in range(40 if tier == "quick" else 400):
        histories.append([hr.choice(hist_labels) for _ in range(hr.randrange(3, 7))])
    if hist_labels:
        histories.append(hist_labels + hist_labels[::-1])

    def one_history(hist):
        w = common.ZWorker(zdrive)
        out = []
        pid = None
        try:
            for k, lbl in enumerate(hist):
                files, start, ref_sha, ref_text = refs[lbl]
                res = w.run({"id": k, "op": "gen", "files": files, "start": start, "cpu_budget_s": 60, "want_text": True}, wall_timeout=120)
                if "calls" not in res or (pid is not None and w.p is not None and w.p.pid != pid):
                    return out, "process ended inside the history"
                pid = w.p.pid if w.p is not None else pid
                call = res["calls"][0]
                if call.get("outcome") != "ok":
                    out.append((lbl, k, "outcome-" + str(call.get("outcome")), {"history": hist[: k + 1]}))
                elif call["sha"] != ref_sha:
                    out.append((lbl, k, _diff_class(ref_text, call.get("text", "")),
                                {"history": hist[: k + 1], "first_diff": _first_diff(ref_text, call.get("text", ""))}))
            return out, None
        finally:
            w.close()

    history_calls, histories_cut_short = 0, 0
    for hist, (recs, cut) in zip(histories, pool.map(one_history, histories)):
        if cut:
            histories_cut_short += 1
            continue
        history_calls += len(hist)
        for lbl, k, where, detail in recs:
            v.violation(f"C12|differs|across=other-inputs-earlier-in-the-process|where={where}", {"input": lbl, "detail": detail})
    executions += history_calls
    # the command line program writing over what an earlier run left at the output path: inputs X and Y into one path, in both
    # orders and twice each — the file must hold exactly what a run into a fresh path gives (the library's bytes for that input)
    zeep_bin = common.build_zeep_bin()
    cli_runs = 0
    cli_labels = [lbl for lbl in hist_labels if lbl.startswith(("synth-wsdl", "shared-namespace:"))][: 8 if tier == "quick" else 40]
    cdir = os.path.join(scratchdir, "cli")
    for a, b in zip(cli_labels, cli_labels[1:] + cli_labels[:1]):
        d = os.path.join(cdir, hashlib.sha1((a + b).encode()).hexdigest()[:10])
        out_path = os.path.join(d, "out.rs")
        for which, lbl in enumerate((a, b, a, a)):
            files, start, ref_sha, ref_text = refs[lbl]
            ind = os.path.join(d, f"in{which}")
            os.makedirs(ind, exist_ok=True)
            for n, c in files.items():
                with open(os.path.join(ind, n), "w", encoding="utf-8") as f:
                    f.write(c)
            try:
                pr = subprocess.run([zeep_bin, "--input", os.path.join(ind, start), "--output", out_path], stdout=subprocess.PIPE, stderr=subprocess.PIPE,
                                    timeout=120, env=dict(common.ENV, RUST_BACKTRACE="0"))
            except subprocess.TimeoutExpired:
                continue
            cli_runs += 1
            got = open(out_path, "rb").read() if os.path.exists(out_path) else b""
            if pr.returncode != 0 or hashlib.sha256(got).hexdigest() != ref_sha:
                v.violation("C12|differs|across=what-an-earlier-run-left-at-the-output-path|where="
                            + ("run-failed" if pr.returncode != 0 else ("longer-than-fresh" if len(got) > len(ref_text.encode()) else _diff_class(ref_text, got.decode("utf-8", "replace")))),
                            {"input": lbl, "earlier_inputs_at_this_path": [a, b, a, a][:which], "bytes": len(got), "fresh_bytes": len(ref_text.encode())})
    executions += cli_runs
    import shutil
    shutil.rmtree(scratchdir, ignore_errors=True)
    multi_op = sum(1 for lbl in distinct_outputs if "synth" in lbl or "generated" in lbl or lbl.endswith((".wsdl", "_wsdl.xml")))
    cov = {
        "evaluations": executions,
        "distinct_nontrivial": multi_op,
        "rule": "inputs = every schema/WSDL file under /repo/resources and zeep-lib/test-data that the generator accepts (with their "
                "sibling .xsd files) + seeded synthetic WSDLs with 2-8 operations, multi-part messages, headers, with/without "
                "parts=; per input: N fresh processes (fresh hash seeds), 4 threads x 3 repeated read_xml calls on one FilesToRead, "
                "a call history of length 3, every/8 registration orders of the file set, and the directory-enumerating helper; then histories of "
                "3-6 *different* accepted inputs in one process (random ones, and all orders of four small sets that share a namespace but "
                "give it different prefixes), each output compared with the fresh-process output of that input; then the command line program writing two inputs into one output path in turn "
                "(the file must equal the fresh output each time); inputs that are "
                "refused (repository files zeep cannot read, and five hand-made failing sets) get call histories and threads as well and "
                "must be refused the same way each time; "
                "oracle = SHA-256 equality with the first output. evaluations = generator executions compared; "
                "distinct_nontrivial = accepted inputs that are WSDLs (>= 2 operations or parts, where a hash-order dependence "
                "can show at all)",
        "command_line_runs_over_an_earlier_output": cli_runs,
        "histories_over_different_inputs_in_one_process": len(histories) - histories_cut_short, "calls_in_those_histories": history_calls,
        "histories_cut_short_by_a_dying_process": histories_cut_short,
        "inputs_total": len(inputs), "inputs_accepted": accepted, "refused_inputs_checked_for_stable_outcome": rejected_checked, "fresh_processes_per_input": n_proc,
        "distinct_outputs_seen_per_input": distinct_outputs,
        "inputs_with_more_than_one_output": sorted(k for k, n in distinct_outputs.items() if n > 1),
        "samples": samples,
    }
    v.finish(cov, assumptions=["byte comparison via SHA-256 computed inside zdrive on the Vec<u8> sink",
                               "fresh process = fresh std RandomState keys"], min_evaluations=200)


# =========================================================================================== C15

def c15(tier):
    v = Verdict("C15", tier, "fault_enumeration")
    zdrive = common.build_tool("zdrive")
    inputs = []
    for label, d, start in repo_corpus():
        inputs.append((label, read_dir_files(d, start), start))
    for k in range(6 if tier == "quick" else 40):
        text, meta = synth_wsdl(rng("C15", "synth", k), 1 + k % 5, headers=True, n_groups=1 + k % 2)
        inputs.append((f"synth-wsdl-{k}", {"svc.wsdl": text}, "svc.wsdl"))
    inputs += generated_sets("C15", 6 if tier == "quick" else 40)
    # tiny documents that isolate single emitters
    xs = 'xmlns:xs="http://www.w3.org/2001/XMLSchema"'
    tiny = {
        "tiny-simple-doc": f'<xs:schema {xs} targetNamespace="http://zv.test/t/one"><xs:simpleType name="S"><xs:annotation>'
                           f'<xs:documentation>line one\nline two\nline three</xs:documentation></xs:annotation>'
                           f'<xs:restriction base="xs:string"><xs:enumeration value="a"/></xs:restriction></xs:simpleType></xs:schema>',
        "tiny-complex-doc": f'<xs:schema {xs} targetNamespace="http://zv.test/t/two"><xs:complexType name="C"><xs:annotation>'
                            f'<xs:documentation>first\nsecond</xs:documentation></xs:annotation><xs:sequence>'
                            f'<xs:element name="a" type="xs:int"/></xs:sequence><xs:attribute name="b" type="xs:string"/>'
                            f'</xs:complexType></xs:schema>',
        "tiny-alias": f'<xs:schema {xs} targetNamespace="http://zv.test/t/three"><xs:complexType name="C"><xs:sequence>'
                      f'<xs:element name="a" type="xs:int"/></xs:sequence></xs:complexType><xs:element name="E" type="xs:string"/>'
                      f'</xs:schema>',
        "tiny-no-namespace": f'<xs:schema {xs}><xs:complexType name="C"><xs:sequence><xs:element name="a" type="xs:int"/>'
                             f'</xs:sequence></xs:complexType><xs:simpleType name="S"><xs:restriction base="xs:int">'
                             f'<xs:minInclusive value="1"/></xs:restriction></xs:simpleType></xs:schema>',
    }
    for k, t in tiny.items():
        inputs.append((k, {"t.xsd": t}, "t.xsd"))
    # non-ASCII text everywhere it can be carried into the output (names, enumeration values, documentation, namespace URIs): a
    # writer that accepts one byte at a time splits every multi-byte character
    from . import gen_c14, render
    for nm in ("Größe", "漢字", "naïve-Name", "Ünï_cödé"):
        for pos in ("local-element", "attribute", "complex-type", "simple-type", "operation"):
            ss = gen_c14.base_program(names={pos: gen_c14.Name((nm.lower(),), "snake", nm)},
                                      texts={"doc-simple": "Prüfziffer — 検査", "doc-complex": "größer als\nkleiner als", "enumeration": "äöü"})
            inputs.append((f"non-ascii:{pos}", render.render_set(ss), ss.start))
    jobs = []
    for i, (label, files, start) in enumerate(inputs):
        jobs.append({"id": i, "op": "sinkscan", "files": files, "start": start, "cpu_budget_s": 600,
                     "max_all": 3000 if tier == "quick" else 20000, "sample": 800 if tier == "quick" else 6000,
                     "seed": common.seed_value() * 7919 + i})
    results = common.run_jobs(zdrive, jobs, nworkers=16, wall_timeout=1500)
    injections = 0
    scanned = 0
    pairs = 0
    outcomes = {}
    samples = []
    short_total = {}
    full_total = {}
    for (label, files, start), res in zip(inputs, results):
        if res.get("watchdog") or "died" in res:
            v.inconclusive = v.inconclusive or None
            if "died" in res:
                v.violation(f"C15|process-died|how={common.classify_death(res)}", {"input": label, "stderr": res.get("stderr")})
            continue
        if res.get("status") != "scanned":
            continue
        scanned += 1
        injections += res["injections"]
        pairs += res["distinct_chunks"]
        for k, n in res["outcomes"].items():
            outcomes[k] = outcomes.get(k, 0) + n
        for a in res["anomalies"]:
            site = a.get("site") or (a.get("panic") or {}).get("func") or "?"
            site = site.replace("zeep_lib::", "")
            v.violation(f"C15|{a['verdict']}|site={site}|mode={a['mode']}",
                        {"input": label, "write_call": a["k"], "error_kind": a["kind"], "chunk": a.get("chunk"),
                         "panic": a.get("panic"), "err": a.get("err")})
        for s in res["short"]:
            short_total[s["pattern"] + ":" + s["verdict"]] = short_total.get(s["pattern"] + ":" + s["verdict"], 0) + 1
            if s["verdict"] != "identical":
                v.violation(f"C15|short-write|pattern={s['pattern']}|effect={s['verdict']}", {"input": label, "detail": s})
        for k, n in (res.get("full") or {}).items():
            full_total[k] = full_total.get(k, 0) + n
        for a in res.get("full_anomalies") or []:
            where = "inside-the-last-write" if a["missing_bytes"] <= 64 else "earlier"
            v.violation(f"C15|{a['verdict']}|sink=runs-full-then-accepts-nothing|where={where}", {"input": label, "detail": a})
        if len(samples) < 8:
            samples.append({"input": label, "write_calls": res["write_calls"], "bytes": res["bytes"],
                            "indices_injected": res["ks"], "all_indices": res["exhaustive"], "injections": res["injections"]})
    cov = {
        "evaluations": injections,
        "distinct_nontrivial": pairs,
        "rule": "for each accepted document (repository schemas/WSDLs, synthetic WSDLs, four single-emitter minis) write_xml runs on "
                "a sink that fails at write call k, for every k when the document has <= max_all write calls (else first/last "
                "max_all/2 plus a seeded sample), x {fail once then healthy, fail forever} x error kinds {Other, WriteZero, BrokenPipe, "
                "StorageFull, WouldBlock, TimedOut, PermissionDenied, NotFound, InvalidData, InvalidInput, UnexpectedEof, AlreadyExists, ConnectionReset, Unsupported, OutOfMemory} (all kinds for small documents and k<64, one rotating kind otherwise); expected outcome: "
                "Err(WriterError::Io), never Ok, never panic; plus 4 short-write patterns whose collected bytes must equal the "
                "unconstrained output; plus sinks with room for only a part of the text (up to each scanned write call, into the middle of it, "
                "and every byte count of the last 64) that accept nothing afterwards (Ok(0), like &mut [u8]): expected Err(Io) as well. evaluations = injected failures; distinct_nontrivial = distinct (document, written chunk) "
                "pairs at which a failure was injected (chunk identity ~ emitting call site)",
        "exhaustive": tier == "thorough" or None,
        "documents_scanned": scanned, "documents_total": len(inputs), "outcomes": outcomes, "short_write_results": short_total, "sinks_that_run_full": full_total,
        "samples": samples,
    }
    if cov["exhaustive"] is None:
        del cov["exhaustive"]
    v.finish(cov, assumptions=["failure injection at the io::Write::write boundary (tools/zdrive/src/sinks.rs); flush is never called by the writer",
                               "WriterError::Io is recognised by its Debug variant name (the error type is private)"],
             min_evaluations=5000)


# =========================================================================================== C13

def _norm_msg(m):
    import re
    m = re.sub(r"`[^`]*`", "`…`", m or "")
    m = re.sub(r"\"[^\"]*\"", "\"…\"", m)
    m = re.sub(r"\d+", "N", m)
    return m[:100]


def _c13_budget(files):
    size = sum(len(c) for c in files.values())
    return 10 + size // 50_000


FUZZ_MARK = "<!--ZVFILE-->"


def _fuzz_stream(corpus, seconds):
    """Third input stream of C13 (thorough): libFuzzer (cargo fuzz, coverage feedback, ASan build) as a *workload generator* over
    the reader + writer. Nothing it reports is a verdict: every artifact it saves and every corpus entry it keeps is handed to the
    zdrive monitor afterwards. Returns (inputs, info); inputs = [(label, files, start, ops)]."""
    info = {"status": "not-run"}
    fdir = os.path.join(common.TOOLS, "fuzz")
    tdir = os.path.join(common.WORK, "fuzz-target")
    shutil.copy(os.path.join(common.TOOLS, "Cargo.lock"), os.path.join(fdir, "Cargo.lock"))
    try:
        b = common.run(["cargo", "+nightly", "fuzz", "build", "--fuzz-dir", fdir, "--target-dir", tdir, "readwrite"],
                       cwd=common.TOOLS, timeout=2400)
    except subprocess.TimeoutExpired:
        info["reason"] = "cargo fuzz build timed out"
        return [], info
    binary = os.path.join(tdir, "x86_64-unknown-linux-gnu", "release", "readwrite")
    if b.returncode != 0 or not os.path.exists(binary):
        info["reason"] = "cargo +nightly fuzz build failed: " + b.stderr.decode(errors="replace")[-400:]
        return [], info
    root = common.scratch("c13fuzz")
    cdir, adir = os.path.join(root, "corpus"), os.path.join(root, "artifacts")
    os.makedirs(cdir)
    os.makedirs(adir)
    seeds = 0
    for label, files, start in corpus:
        if sum(len(c) for c in files.values()) > 60_000 or len(files) > 6:
            continue
        names = [start] + sorted(n for n in files if n != start)
        with open(os.path.join(cdir, f"seed-{seeds:04d}"), "w") as f:
            f.write(FUZZ_MARK.join(files[n] for n in names))
        seeds += 1
    seed_names = set(os.listdir(cdir))
    log = os.path.join(root, "fuzz.log")
    cmd = [binary, cdir, "-fork=14", "-ignore_crashes=1", "-ignore_timeouts=1", "-ignore_ooms=1", "-timeout=10",
           f"-max_total_time={seconds}", "-max_len=65536", "-rss_limit_mb=4096",
           "-dict=" + os.path.join(fdir, "xsd.dict"), "-artifact_prefix=" + adir + "/"]
    with open(log, "wb") as lf:
        try:
            subprocess.run(cmd, stdout=lf, stderr=subprocess.STDOUT, env=common.ENV, timeout=seconds + 600, cwd=root)
        except subprocess.TimeoutExpired:
            info["note"] = "fuzzer overran its time box and was stopped"
    last = ""
    for line in open(log, errors="replace"):
        if line.startswith("#") and " cov: " in line:
            last = line.strip()
    m = re.match(r"#(\d+): cov: (\d+) ft: (\d+) corp: (\d+) .*oom/timeout/crash: (\d+)/(\d+)/(\d+)", last)
    if not m:
        info["reason"] = "no progress line in the fuzzer log"
        shutil.rmtree(root, ignore_errors=True)
        return [], info
    info = {"status": "ran", "seconds": seconds, "seed_inputs": seeds, "executions": int(m.group(1)), "edges_covered": int(m.group(2)),
            "features": int(m.group(3)), "corpus_entries": int(m.group(4)),
            "fuzzer_reported": {"oom": int(m.group(5)), "timeout": int(m.group(6)), "crash": int(m.group(7))}}
    inputs = []

    def take(path, label, op):
        try:
            text = open(path, "rb").read().decode("utf-8")
        except UnicodeDecodeError:
            return
        parts = text.split(FUZZ_MARK)[:7]
        files = {"in.wsdl": parts[0]}
        for i, part in enumerate(parts[1:]):
            files[f"f{i + 1}.xsd"] = part
        inputs.append((label, files, "in.wsdl", [op]))

    for n in sorted(os.listdir(adir)):
        take(os.path.join(adir, n), "fuzzed:artifact", "fuzz-artifact:" + n.split("-")[0])
    info["artifacts_rejudged"] = len(inputs)
    new = sorted(set(os.listdir(cdir)) - seed_names)
    r = rng("C13", "fuzz-sample")
    if len(new) > 40_000:
        new = r.sample(new, 40_000)
    for n in new:
        take(os.path.join(cdir, n), "fuzzed:corpus", "fuzz-corpus")
    info["corpus_entries_rejudged"] = len(inputs) - info["artifacts_rejudged"]
    shutil.rmtree(root, ignore_errors=True)
    return inputs, info


def c13(tier):
    from . import mutate_xml, gen_invalid
    v = Verdict("C13", tier, "exploration")
    zdrive = common.build_tool("zdrive")
    n_mut = 2600 if tier == "quick" else 140_000
    corpus = []
    for label, d, start in repo_corpus():
        files = read_dir_files(d, start)
        corpus.append((label, files, start))
    for k in range(12 if tier == "quick" else 60):
        text, _ = synth_wsdl(rng("C13", "synth", k), 1 + k % 6, n_groups=1 + k % 3)
        corpus.append((f"synth-wsdl-{k}", {"svc.wsdl": text}, "svc.wsdl"))
    corpus += generated_sets("C13", 10 if tier == "quick" else 60)
    jobs = []
    meta = []

    def add(label, files, start, ops):
        jobs.append({"id": len(jobs), "op": "gen", "files": files, "start": start, "cpu_budget_s": _c13_budget(files)})
        meta.append({"label": label, "ops": ops, "files": files, "start": start})

    for label, files, start in gen_invalid.cases():
        add("grammar:" + label, files, start, ["grammar"])
    n_grammar = len(jobs)
    # weights: small documents are mutated much more often than the 800 kB ones
    weights = [1.0 / (1 + sum(len(c) for c in f.values()) / 40_000) for _, f, _ in corpus]
    r = rng("C13", "mutate")
    for i in range(n_mut):
        label, files, start = r.choices(corpus, weights)[0]
        files = dict(files)
        target = r.choice(sorted(files)) if r.random() < 0.35 else start
        ops = []
        if r.random() < 0.08:
            files[target], lab = mutate_xml.text_level(files[target], r)
            ops.append(lab)
        else:
            other = r.choice(corpus)[1]
            other_text = other[sorted(other)[0]]
            if len(other_text) > 200_000:
                other_text = None
            out, labs = mutate_xml.mutate(files[target], r, n_ops=r.choice([1, 1, 1, 2, 3]), other_text=other_text)
            if out is None:
                continue
            files[target] = out
            ops = labs
        if r.random() < 0.03:
            start = r.choice(sorted(files))      # start from a sibling instead
            ops.append("start-from-sibling")
        add("mutated:" + label, files, start, ops)
    fuzz_info = {"status": "not-run", "reason": "thorough tier only"}
    if tier == "thorough" or os.environ.get("VERIF_FUZZ_SECONDS"):
        fz_inputs, fuzz_info = _fuzz_stream(corpus, int(os.environ.get("VERIF_FUZZ_SECONDS", "900")))
        for label, files, start, ops in fz_inputs:
            add(label, files, start, ops)
    results = common.run_jobs(zdrive, jobs, nworkers=16, wall_timeout=600)
    outcomes = {}
    past_parse = 0
    evaluated = 0
    inconclusive = 0
    fingerprints = set()
    samples = []
    for job, m, res in zip(jobs, meta, results):
        opclass = ",".join(sorted(set(o.split(":")[0] + (":" + o.split(":")[1].split("@")[-1].split("->")[0] if ":" in o else "") for o in m["ops"])))[:80]
        if res.get("watchdog"):
            inconclusive += 1
            continue
        evaluated += 1
        replay_files = {"in/" + k: c for k, c in m["files"].items()}
        replay_files["start.txt"] = m["start"]
        if "died" in res:
            kind = common.classify_death(res)
            via = m["label"].split(":", 1)[1] if m["label"].startswith("grammar:") else "mutation"
            if m["label"].startswith("fuzzed:"):
                via = "coverage-guided-fuzzing"
            v.violation(f"C13|{kind}|via={via if via != 'mutation' else 'mutation:' + opclass}",
                        {"input": m["label"], "ops": m["ops"], "stderr": res.get("stderr", "")[-300:], "start": m["start"]}, replay_files)
            outcomes[kind] = outcomes.get(kind, 0) + 1
            past_parse += 1
            continue
        call = res["calls"][0]
        if call["outcome"] == "panic":
            p = call.get("panic") or {}
            site = (p.get("file", "?").replace("/repo/zeep-lib/src/", "")) + "::" + (p.get("func", "").split("::")[-1] or "?")
            v.violation(f"C13|panic|stage={call.get('stage')}|site={site}|msg={_norm_msg(p.get('msg'))}",
                        {"input": m["label"], "ops": m["ops"], "panic": p, "start": m["start"]}, replay_files)
            outcomes["panic"] = outcomes.get("panic", 0) + 1
            past_parse += 1
            continue
        key = call["outcome"] if call["outcome"] == "ok" else "err:" + str(call.get("err", {}).get("variant"))
        outcomes[key] = outcomes.get(key, 0) + 1
        msg = str(call.get("err", {}).get("msg", ""))
        if not (key == "err:Message" and "Unable to parse" in msg):
            past_parse += 1
            fingerprints.add((m["label"].split(":", 1)[0], opclass, key))
        if len(samples) < 8 and i % 7 == 0 and m["ops"] != ["grammar"]:
            samples.append({"seed_document": m["label"], "mutations": m["ops"], "outcome": key})
    # the families whose verdict depends on the size of a stack frame, once more with an unoptimised build (what a user's debug
    # build is: a limit that keeps the stack safe at opt-level 1 may not at opt-level 0)
    STACK_FAMILIES = ("deep-", "dtd-", "forward-", "import-chain", "recursion", "same-named", "colliding-namespaces")
    zdrive0 = common.build_tool_unoptimised("zdrive")
    sjobs, smeta = [], []
    for job, m in zip(jobs, meta):
        if m["label"].startswith("grammar:") and m["label"].split(":", 1)[1].startswith(STACK_FAMILIES):
            sjobs.append(dict(job, id=len(sjobs), cpu_budget_s=max(job.get("cpu_budget_s", 10) * 6, 120)))
            smeta.append(m)
    sresults = common.run_jobs(zdrive0, sjobs, nworkers=16, wall_timeout=900)
    unoptimised = {"cases": len(sjobs), "died": 0, "panicked": 0, "watchdog": 0}
    for job, m, res in zip(sjobs, smeta, sresults):
        if res.get("watchdog"):
            unoptimised["watchdog"] += 1
            continue
        evaluated += 1
        replay_files = {"in/" + k: c for k, c in m["files"].items()}
        replay_files["start.txt"] = m["start"]
        via = m["label"].split(":", 1)[1]
        if "died" in res:
            unoptimised["died"] += 1
            v.violation(f"C13|{common.classify_death(res)}|via={via}|build=unoptimised",
                        {"input": m["label"], "stderr": res.get("stderr", "")[-300:], "start": m["start"]}, replay_files)
        elif res["calls"][0]["outcome"] == "panic":
            unoptimised["panicked"] += 1
            pn = res["calls"][0].get("panic") or {}
            v.violation(f"C13|panic|stage={res['calls'][0].get('stage')}|via={via}|build=unoptimised|msg={_norm_msg(pn.get('msg'))}",
                        {"input": m["label"], "panic": pn, "start": m["start"]}, replay_files)
    for label in ("grammar:recursion:ref-self", "grammar:colliding-namespaces:n=300", "grammar:start-file-missing"):
        samples.append({"grammar_case": label})
    cov = {
        "evaluations": evaluated,
        "distinct_nontrivial": len(fingerprints),
        "rule": "stream 1: structure-aware mutation (delete/duplicate/move subtree, drop/alter key attributes, retarget QNames to "
                "dangling/self/enclosing/other-kind targets, mutual references, prefix/URI changes, extra sequence/choice levels, "
                "occurrence garbage, tag renames, splices from other schemas; 1-3 stacked) of every repository schema/WSDL, of "
                "synthetic WSDLs, applied to the start file or a sibling; 8% text-level damage; stream 2: the enumerated grammar of "
                "invalid documents in vf/gen_invalid.py (missing attribute at every site, recursion through ref/base/type, forward-"
                "reference fan-out, colliding namespaces, deep nesting, WSDL wiring errors, API misuse); stream 3 (thorough): inputs that a "
                "coverage-guided fuzzer (cargo fuzz, tools/fuzz) kept or saved as artifacts, re-judged here. Each input runs "
                "read_xml+write_xml in a zdrive child under catch_unwind, RLIMIT_CPU (10 s + 1 s/50 kB) and an 8 MiB stack. "
                "The grammar families whose verdict depends on the size of a stack frame (deep nesting, DTD entities, forward-reference and import chains, recursion, "
                "same-named members) run a second time in a zdrive built without any optimisation (a user's debug build). "
                "Non-trivial = got past XML parsing; distinct = distinct (stream, mutation-operator class, outcome class) triples",
        "stack_families_in_an_unoptimised_build": unoptimised,
        "grammar_cases": n_grammar, "mutated_inputs": sum(1 for m in meta if m["label"].startswith("mutated:")),
        "coverage_guided_stream": fuzz_info, "past_xml_parsing": past_parse,
        "outcomes": outcomes, "inconclusive_cases": inconclusive, "samples": samples,
    }
    if inconclusive > len(jobs) * 0.1:
        v.inconclusive = f"{inconclusive} of {len(jobs)} inputs hit the wall-clock watchdog"
    v.finish(cov, assumptions=["outcome classes are observed at the process boundary: result line, caught panic (hook), death by signal, RLIMIT_CPU",
                               "dev profile (debug assertions and overflow checks on) — stricter than a release build; opt-level 1 for speed, opt-level 0 for the stack families",
                               "the stack is 8 MiB (the main thread of the command line program); a caller that runs the library on a smaller stack has smaller limits"],
             min_evaluations=1000)
