"""Abstract schema-set model (DESIGN §2) and seeded generators.

The model is the single source of truth for every oracle: renderers turn it into XSD/WSDL text, refmap turns it
into the expected Rust shapes, sample/instance turn it into values and instance documents. Nothing here looks at
zeep's code or output."""
from dataclasses import dataclass, field
from typing import Optional

XSD_NS = "http://www.w3.org/2001/XMLSchema"

# builtin → documented Rust carrier (README/field.rs table at the pinned commit, re-typed here from the XSD names)
BUILTINS = {
    "byte": "i8", "short": "i16", "int": "i32", "long": "i64",
    "unsignedByte": "u8", "unsignedShort": "u16", "unsignedInt": "u32", "unsignedLong": "u64",
    "integer": "i32", "negativeInteger": "i32", "nonNegativeInteger": "i32", "nonPositiveInteger": "i32", "positiveInteger": "i32",
    "decimal": "f64", "double": "f64", "float": "f32", "boolean": "bool",
    "string": "String", "normalizedString": "String", "base64Binary": "String", "hexBinary": "String", "anyURI": "String",
    "date": "String", "dateTime": "String", "time": "String", "language": "String", "duration": "String",
}
INT_BUILTINS = [b for b, c in BUILTINS.items() if c[0] in "iu"]
STRING_BUILTINS = ["string", "normalizedString"]          # facet-bearing string-likes used by the generator

STRICT_KEYWORDS = ["as", "break", "const", "continue", "crate", "else", "enum", "extern", "false", "fn", "for", "if", "impl", "in",
                   "let", "loop", "match", "mod", "move", "mut", "pub", "ref", "return", "self", "Self", "static", "struct", "super",
                   "trait", "true", "type", "unsafe", "use", "where", "while", "async", "await", "dyn"]
RESERVED_KEYWORDS = ["abstract", "become", "box", "do", "final", "macro", "override", "priv", "typeof", "unsized", "virtual", "yield",
                     "try", "gen"]
WEAK_KEYWORDS = ["macro_rules", "union", "safe", "raw"]
KEYWORDS = STRICT_KEYWORDS + RESERVED_KEYWORDS + WEAK_KEYWORDS
PRELUDE_WORDS = ["default", "string", "option", "vec", "rc", "result", "box", "some", "none", "ok", "err", "clone", "debug"]
NOT_RAW = {"self", "Self", "super", "crate"}              # cannot be written as r#ident

PLAIN_WORDS = ["order", "item", "user", "account", "price", "total", "code", "status", "detail", "list", "info", "data", "value",
               "key", "name", "kind", "level", "count", "unit", "zone", "rate", "note", "line", "part", "page", "group", "role",
               "task", "plan", "site", "lot", "bin", "tag", "flag", "mode", "path", "host", "port", "time", "date", "size"]
STYLES = ["camel", "pascal", "snake", "kebab", "upper", "dotted", "mixed"]


@dataclass(frozen=True)
class Name:
    words: tuple
    style: str
    literal: Optional[str] = None      # exact XML spelling for hand-made names (C14); words still give the expected Rust forms

    @property
    def xml(self):
        if self.literal is not None:
            return self.literal
        w = self.words
        if self.style == "camel":
            return w[0] + "".join(x.capitalize() for x in w[1:])
        if self.style == "pascal":
            return "".join(x.capitalize() for x in w)
        if self.style == "snake":
            return "_".join(w)
        if self.style == "kebab":
            return "-".join(w)
        if self.style == "upper":
            return "_".join(x.upper() for x in w)
        if self.style == "dotted":
            return ".".join(w)
        if self.style == "mixed":
            return "_".join(x.capitalize() for x in w)
        raise ValueError(self.style)

    @property
    def snake(self):
        return "_".join(self.words)

    @property
    def pascal(self):
        return "".join(x.capitalize() for x in self.words)

    @property
    def has_keyword(self):
        return self.snake in [k.lower() for k in KEYWORDS] or self.xml in KEYWORDS


def fixed_name(xml, words=None, style="pascal"):
    """A Name whose XML spelling is given literally (used by hand-made programs)."""
    return Name(tuple(words or [xml.lower()]), style, xml)


@dataclass
class TypeRef:
    """Reference to a builtin (file is None) or to a named component of file `file`."""
    name: str                      # builtin name, or component Name.xml
    file: Optional[int] = None
    comp: object = None            # the component object (resolved)

    @property
    def builtin(self):
        return self.file is None


@dataclass
class Facets:
    min_inclusive: Optional[int] = None
    max_inclusive: Optional[int] = None
    min_exclusive: Optional[int] = None
    max_exclusive: Optional[int] = None
    length: Optional[int] = None
    min_length: Optional[int] = None
    max_length: Optional[int] = None
    enumeration: Optional[list] = None
    # facets the generator has no counterpart for (pattern, whiteSpace, totalDigits, fractionDigits): (facet name, text) pairs that
    # are rendered as written; value sampling ignores them
    unchecked: Optional[list] = None

    def items(self):
        out = []
        for k, x in (("minInclusive", self.min_inclusive), ("maxInclusive", self.max_inclusive), ("minExclusive", self.min_exclusive),
                     ("maxExclusive", self.max_exclusive), ("length", self.length), ("minLength", self.min_length),
                     ("maxLength", self.max_length)):
            if x is not None:
                out.append((k, x))
        return out

    def empty(self):
        return not self.items() and not self.enumeration


@dataclass
class SimpleType:
    name: Name
    base: TypeRef
    facets: Facets = field(default_factory=Facets)
    doc: Optional[str] = None
    file: int = 0
    kind: str = "simple"
    lexical_style: str = "plain"       # how numeric facet values are spelled: plain, plus (+7), padded ( 7 ), zeros (007)

    def ultimate_builtin(self):
        t = self
        while not t.base.builtin:
            t = t.base.comp
        return t.base.name

    def facet_chain(self):
        """Own facets first, then those inherited from the base chain."""
        out, t = [], self
        while True:
            out.append((t, t.facets))
            if t.base.builtin:
                return out
            t = t.base.comp


@dataclass
class Attr:
    name: Name
    type: TypeRef
    required: bool = False
    kind: str = "attribute"


@dataclass
class LocalElement:
    name: Name
    type: TypeRef
    min: int = 1
    max: object = 1                # int or "unbounded"
    kind: str = "element"


@dataclass
class ElementRef:
    ref: TypeRef                   # file + name of a GlobalElement
    min: int = 1
    max: object = 1
    kind: str = "ref"


@dataclass
class Group:
    """sequence or choice"""
    kind: str                      # "sequence" | "choice"
    min: int = 1
    max: object = 1
    items: list = field(default_factory=list)


@dataclass
class Content:
    group: Optional[Group] = None
    attrs: list = field(default_factory=list)


@dataclass
class ComplexType:
    name: Name
    content: Content
    base: Optional[TypeRef] = None
    doc: Optional[str] = None
    file: int = 0
    kind: str = "complex"


@dataclass
class GlobalElement:
    name: Name
    type: Optional[TypeRef] = None         # typed element …
    content: Optional[Content] = None      # … or anonymous complex type
    base: Optional[TypeRef] = None         # anonymous type defined by extension
    doc: Optional[str] = None
    file: int = 0
    kind: str = "gelement"

    @property
    def anonymous(self):
        return self.type is None


@dataclass
class SchemaFile:
    idx: int
    uri: Optional[str]
    filename: str
    imports: list = field(default_factory=list)        # file indices (may contain duplicates, self)
    components: list = field(default_factory=list)
    prefixes: dict = field(default_factory=dict)       # file idx → prefix used in this file's QNames (own idx included)
    xs_prefix: str = "xs"
    nested_xmlns: bool = False                         # declare foreign prefixes on the using component instead of the root


@dataclass
class Part:
    name: Name
    element: TypeRef               # → GlobalElement


@dataclass
class Message:
    name: Name
    parts: list


@dataclass
class Operation:
    name: Name
    input: Message
    output: Optional[Message]
    in_headers: list = field(default_factory=list)     # part names (Name) bound as headers, binding order
    out_headers: list = field(default_factory=list)
    in_body: Optional[Name] = None                     # body part name
    out_body: Optional[Name] = None
    in_parts_attr: bool = True
    out_parts_attr: bool = True
    soap_action: str = ""


@dataclass
class Wsdl:
    uri: str
    service: Name
    port: Name
    port_type: Name
    binding: Name
    operations: list = field(default_factory=list)
    location: str = "http://127.0.0.1:9/svc"
    filename: str = "service.wsdl"


@dataclass
class SchemaSet:
    files: list
    start: str
    wsdl: Optional[Wsdl] = None
    features: set = field(default_factory=set)

    def all_components(self):
        for f in self.files:
            for c in f.components:
                yield f, c


# ----------------------------------------------------------------------------------------------- name factory

class Names:
    def __init__(self, r, keyword_rate=0.08, styles=None, max_words=3, pool=None):
        self.r = r
        self.keyword_rate = keyword_rate
        self.styles = styles or STYLES
        self.max_words = max_words
        self.pool = pool or PLAIN_WORDS

    def fresh(self, taken_snake, taken_pascal=None, style=None, allow_keyword=True):
        """A name whose snake form is not in taken_snake (and pascal form not in taken_pascal)."""
        r = self.r
        for _ in range(200):
            if allow_keyword and r.random() < self.keyword_rate:
                # Rust keywords, and words that are prelude / generated-code type names once PascalCased
                kw = r.choice([k for k in KEYWORDS if k not in ("Self", "macro_rules")] + PRELUDE_WORDS)
                words = (kw,) if r.random() < 0.6 else (kw, r.choice(self.pool))
                # every style: `Move`, `MOVE` become the keyword `move` once snake-cased (as a type name `Move` is no keyword)
                st = style or r.choice(self.styles)
            else:
                n = min(r.choice([1, 2, 2, 3][: self.max_words + 1]), len(self.pool))
                words = tuple(r.sample(self.pool, n))
                st = style or r.choice(self.styles)
            nm = Name(words, st)
            if nm.snake in taken_snake:
                continue
            if taken_pascal is not None and nm.pascal in taken_pascal:
                continue
            taken_snake.add(nm.snake)
            if taken_pascal is not None:
                taken_pascal.add(nm.pascal)
            return nm
        raise RuntimeError("name space exhausted")
