"""Seeded generators for schema sets of the supported subset (DESIGN §2). One generator, steered by a config dict
("profile"); the per-property profiles live in engine_g.py."""
from .model import (Attr, BUILTINS, ComplexType, Content, ElementRef, Facets, GlobalElement, Group, INT_BUILTINS, LocalElement,
                    Message, Names, Operation, Part, SchemaFile, SchemaSet, SimpleType, STRING_BUILTINS, TypeRef, Wsdl, Name)

import itertools as _itertools
_OP_NAME_TURN = _itertools.count()

URI_POOL = [
    "http://zv.test/schemas/alpha", "http://zv.test/schemas/bravo", "urn:zv:charlie", "http://zv.test/2024/delta",
    "http://zv.test/ns/echo/", "https://example.org/foxtrot", "http://zv.test/golf-types", "urn:zv:data:hotel",
    "http://zv.test/india.v2", "http://zv.test/schemas/juliet", "http://zv.test/kilo", "http://zv.test/schemas/lima",
    # last segments that start with a digit but hold letters, too (what is made of them must still be a prefix and an identifier)
    "http://zv.test/3dmodel", "http://docs.zv.test/wss/2004/01/mike-200401-wss-secext-1.0.xsd",
]
# adversarial pool (C10): equal last segments, equal 3-letter abbreviations, dots, dashes, trailing slashes, URNs
URI_POOL_ADVERSARIAL = [
    "http://zv.test/orders/v1", "http://zv.test/customers/v1", "http://zv.test/x/v2", "http://zv.test/y/v2", "urn:zv:a:v1",
    "http://zv.test/2006", "http://zv.test/q/2006", "http://zv.test/ty1", "http://zv.test/ty", "http://zv.test/ty2",
    "http://zv.test/v1/types", "http://zv.test/v2/types", "http://zv.test/v3/types", "http://other.test/types",
    "http://zv.test/a/typ", "http://zv.test/b/typography", "urn:zv:types", "urn:zv:x-types", "http://zv.test/my-types",
    "http://zv.test/types/", "http://zv.test/types.v1", "http://zv.test/t.y.pes", "http://zv.test/TYPES",
    "http://zv.test/messages", "http://zv.test/mes", "http://zv.test/x/messages", "urn:mes", "http://zv.test/soapenv",
    "http://zv.test/w3/xs", "http://zv.test/a", "http://zv.test/b/a", "http://zv.test/c-a", "http://zv.test/1/2/3",
    "http://zv.test/123", "http://zv.test/_", "http://zv.test/é/漢字", "http://zv.test/mod", "http://zv.test/r/self",
    # URIs that are different namespaces (namespace names are compared as strings) but equal under some URL normalisation
    "http://zv.test/types", "http://zv.test/ns/orders", "http://zv.test/ns/orders/", "http://zv.test/ns/orders//",
    "http://zv.test/ns/Case", "http://zv.test/ns/case", "http://zv.test/sch", "https://zv.test/sch", "http://zv.test/frag",
    "http://zv.test/frag#", "http://zv.test:80/sch", "http://ZV.test/sch", "http://zv.test/a%20b", "http://zv.test/a%2Fb",
    "http://zv.test/a/b", "urn:zv:Case", "urn:zv:case", "http://zv.test/ns/../ns/orders",
    # abbreviations that would start with "xml" (a prefix reserved by XML itself)
    "http://zv.test/xml", "http://zv.test/ns/xmlns", "urn:zv:XML-types", "http://zv.test/xmlschema/ext",
    # digit-led last segments with letters in them
    "http://zv.test/3dmodel", "http://zv.test/x/3dm", "http://docs.zv.test/wss/2004/01/mike-200401-wss-secext-1.0.xsd", "urn:zv:2fa", "http://zv.test/9-lives",
]
# URIs that zeep's three-letter abbreviation scheme maps to the same (or a confusable) abbreviation
COLLISION_GROUPS = [
    ["http://zv.test/v1/types", "http://zv.test/v2/types", "http://zv.test/v3/types", "http://other.test/types", "urn:zv:types",
     "http://zv.test/my-types", "http://zv.test/types/", "http://zv.test/types.v1", "http://zv.test/TYPES", "http://zv.test/a/typ",
     "http://zv.test/b/typography", "http://zv.test/t.y.pes", "urn:zv:x-types"],
    ["http://zv.test/orders/v1", "http://zv.test/customers/v1", "urn:zv:a:v1"],
    ["http://zv.test/x/v2", "http://zv.test/y/v2"],
    ["http://zv.test/2006", "http://zv.test/q/2006"],
    ["http://zv.test/ty1", "http://zv.test/ty", "http://zv.test/ty2"],
    ["http://zv.test/messages", "http://zv.test/mes", "http://zv.test/x/messages", "urn:mes"],
    ["http://zv.test/a", "http://zv.test/b/a", "http://zv.test/c-a"],
    ["http://zv.test/123", "http://zv.test/1/2/3"],
    ["http://zv.test/ns/orders", "http://zv.test/ns/orders/", "http://zv.test/ns/orders//", "http://zv.test/ns/../ns/orders"],
    ["http://zv.test/types", "http://zv.test/types/", "http://zv.test/TYPES"],
    ["http://zv.test/ns/Case", "http://zv.test/ns/case", "urn:zv:Case", "urn:zv:case"],
    ["http://zv.test/sch", "https://zv.test/sch", "http://zv.test:80/sch", "http://ZV.test/sch"],
    ["http://zv.test/frag", "http://zv.test/frag#"],
    ["http://zv.test/xml", "http://zv.test/ns/xmlns", "urn:zv:XML-types", "http://zv.test/xmlschema/ext"],
    ["http://zv.test/3dmodel", "http://zv.test/x/3dm"],
    ["http://zv.test/a%2Fb", "http://zv.test/a/b", "http://zv.test/a%20b"],
]
PREFIX_POOL = ["tns", "t", "ns1", "ns2", "a", "b", "m", "typ", "msg", "q", "p", "x", "s1", "core", "base"]

DEFAULT_CFG = dict(
    files=(1, 3), wsdl=False, keyword_rate=0.08, styles=None,
    simple_per_file=(1, 3), complex_per_file=(1, 4), elements_per_file=(0, 2),
    p_choice=0.25, p_nested_seq=0.25, p_occurs_n=0.2, p_ext=0.3, p_ext_attrs=0.5, p_ref=0.25, p_attrs=0.6,
    p_simple_derived=0.25, p_enclosing_occurs=0.2, p_doc=0.3, p_cross_file=0.5,
    import_cycles=True, self_import=0.1, dup_import=0.1, nested_xmlns=0.15, no_tns=0.0,
    adversarial_uris=False, reuse_names=False, shadow_names=0.0,
    ops=(1, 4), p_oneway=0.25, headers=(0, 2), p_parts_attr=0.5, p_part_name_differs=0.5, p_soap_action=0.7,
    quarantine=(), attr_named_simple=True, default_ns_own=0.1, avoid_nested_same_name=False,
)


def cfg_with(**kw):
    c = dict(DEFAULT_CFG)
    c.update(kw)
    return c


class Gen:
    def __init__(self, r, cfg):
        self.r = r
        self.cfg = cfg
        self.q = set(cfg.get("quarantine", ()))
        self.names = Names(r, cfg["keyword_rate"], cfg["styles"], cfg.get("max_words", 3), cfg.get("name_pool"))
        self.files = []
        self.tns_only = set()
        self.created = []             # components in creation order (only earlier ones may be referenced)
        self.features = set()

    # ------------------------------------------------------------------ files and imports
    def make_files(self, n):
        r = self.r
        pool = URI_POOL_ADVERSARIAL if self.cfg["adversarial_uris"] else URI_POOL
        if self.cfg["adversarial_uris"] and n >= 2 and r.random() < 0.8:
            # at least two namespaces of one collision group, the rest from the whole pool
            grp = r.choice(COLLISION_GROUPS)
            k = min(len(grp), r.randrange(2, n + 1) if r.random() < 0.6 else n)
            uris = r.sample(grp, k)
            rest = [u for u in pool if u not in uris]
            uris += r.sample(rest, n - k)
            r.shuffle(uris)
        else:
            uris = r.sample(pool, n)
        for i in range(n):
            self.files.append(SchemaFile(i, uris[i], f"f{i}.xsd"))
        if self.cfg["no_tns"] and n == 1 and r.random() < self.cfg["no_tns"]:
            self.files[0].uri = None
            self.features.add("no-target-namespace")
        for j in range(1, n):
            self.files[r.randrange(0, j)].imports.append(j)
        for i in range(n):
            for j in range(n):
                if i != j and j not in self.files[i].imports and r.random() < 0.3:
                    if j < i and not self.cfg["import_cycles"]:
                        continue
                    self.files[i].imports.append(j)
                    if j < i:
                        self.features.add("import-cycle")
            if r.random() < self.cfg["self_import"] and self.files[i].uri:
                self.files[i].imports.append(i)
                self.features.add("self-import")
            if self.files[i].imports and r.random() < self.cfg["dup_import"]:
                self.files[i].imports.append(r.choice(self.files[i].imports))
                self.features.add("duplicate-import")
            r.shuffle(self.files[i].imports)
        # prefixes: each file names its own namespace and every imported one; the same prefix may mean different
        # URIs in different files
        for f in self.files:
            avail = r.sample(PREFIX_POOL, len(PREFIX_POOL))
            f.xs_prefix = r.choice(["xs", "xs", "xsd", "s"])
            avail = [p for p in avail if p != f.xs_prefix]
            for k in [f.idx] + sorted(set(f.imports) - {f.idx}):
                f.prefixes[k] = avail.pop()
            if f.uri is None:
                f.prefixes[f.idx] = ""
            elif r.random() < self.cfg.get("default_ns_own", 0.1) and not (self.cfg["wsdl"] and f.idx == 0):
                # "targetNamespace only": the file declares no prefix for its own namespace, so nothing inside it can refer
                # to its own components by QName (other files still can, through their own prefixes)
                del f.prefixes[f.idx]
                self.tns_only.add(f.idx)
                self.features.add("own-namespace-without-prefix")
            elif r.random() < self.cfg.get("own_ns_default", 0.15) and not (self.cfg["wsdl"] and f.idx == 0):
                # the common "xmlns = targetNamespace" style: references to the file's own components carry no prefix
                f.prefixes[f.idx] = ""
                self.features.add("own-namespace-as-default")
            f.nested_xmlns = r.random() < self.cfg["nested_xmlns"]
            if f.nested_xmlns:
                self.features.add("nested-xmlns")
        self.clash_prefixes()

    def clash_prefixes(self):
        """Prefix reuse across files, on purpose: a file that declares its foreign prefixes on nested elements calls one imported
        namespace by the very prefix that *another* imported file uses for itself. Prefix bindings are per file and per element:
        the importer's nested declaration decides."""
        r = self.r
        for a in self.files:
            if not a.nested_xmlns or r.random() >= self.cfg.get("p_prefix_clash", 0.0):
                continue
            imps = [j for j in dict.fromkeys(a.imports) if j != a.idx and j in a.prefixes]
            if len(imps) < 2:
                continue
            b, c = r.sample(imps, 2)
            pb = self.files[b].prefixes.get(b)
            if not pb or pb == a.xs_prefix or pb in a.prefixes.values():
                continue
            a.prefixes[c] = pb
            self.features.add("prefix-of-one-import-rebound-to-another")

    def visible(self, fidx):
        """Files whose components file fidx may refer to."""
        own = set() if fidx in self.tns_only else {fidx}
        return own | (set(self.files[fidx].imports) - ({fidx} if fidx in self.tns_only else set()))

    def in_progress(self, fidx):
        """Files that are still being read (DFS ancestors from the start file, imports in document order) when file
        fidx is read: a by-name lookup (ref=/base=) from fidx into one of them goes against the reading order."""
        if getattr(self, "inline_all", False):
            return set()
        if not hasattr(self, "_anc"):
            self._anc = {}
            seen = set()

            def dfs(i, stack):
                if i in seen:
                    return
                seen.add(i)
                self._anc[i] = set(stack)
                for j in self.files[i].imports:
                    dfs(j, stack + [i])
            dfs(0, [])
        return self._anc.get(fidx, set())

    def lookup_ok(self, fidx, c):
        """May fidx refer to component c through ref=/base= under the current quarantine?"""
        if "cycle-back-reference" in self.q and c.file in self.in_progress(fidx):
            return False
        if c.file in self.in_progress(fidx):
            self.features.add("cycle-back-reference")
        return True

    # ------------------------------------------------------------------ picking types
    def pick_simple_target(self, fidx, want=None):
        """Builtin or an earlier simple type visible from fidx."""
        r = self.r
        cands = [c for c in self.created if c.kind == "simple" and c.file in self.visible(fidx)]
        if want:
            cands = [c for c in cands if want(c)]
        if cands and r.random() < 0.45:
            local = [c for c in cands if c.file == fidx]
            other = [c for c in cands if c.file != fidx]
            pool = other if other and r.random() < self.cfg["p_cross_file"] else (local or other)
            c = r.choice(pool)
            return TypeRef(c.name.xml, c.file, c)
        return TypeRef(r.choice(list(BUILTINS)))

    def pick_member_type(self, fidx):
        r = self.r
        cands = [c for c in self.created if c.kind == "complex" and c.file in self.visible(fidx)]
        if cands and r.random() < 0.3:
            other = [c for c in cands if c.file != fidx]
            pool = other if other and r.random() < self.cfg["p_cross_file"] else cands
            c = r.choice(pool)
            return TypeRef(c.name.xml, c.file, c)
        return self.pick_simple_target(fidx)

    def occurs(self):
        r = self.r
        mn = 0 if r.random() < 0.4 else 1
        x = r.random()
        if x < 0.65:
            mx = 1
        elif x < 0.65 + self.cfg["p_occurs_n"] and "occurs-n" not in self.q:
            mx = r.randrange(2, 6)
            self.features.add("occurs-n")
        else:
            mx = "unbounded"
        return mn, mx

    # ------------------------------------------------------------------ content
    def make_content(self, fidx, taken, allow_empty=True, depth=0):
        r = self.r
        cfg = self.cfg
        items = []
        n = r.randrange(0 if allow_empty else 1, 5)
        i = 0
        while i < n:
            x = r.random()
            if x < cfg["p_choice"] and "choice" not in self.q:
                ch = Group("choice", *self.group_occurs())
                for _ in range(r.randrange(2, 4)):
                    if r.random() < 0.25 and "sequence-in-choice" not in self.q:
                        # a branch that is a sequence of several elements
                        sq = Group("sequence", 1, 1)
                        for _ in range(r.randrange(1, 3)):
                            sq.items.append(self.make_leaf(fidx, taken))
                        ch.items.append(sq)
                        self.features.add("sequence-in-choice")
                    else:
                        ch.items.append(self.make_leaf(fidx, taken, in_choice=True))
                items.append(ch)
                self.features.add("choice")
            elif x < cfg["p_choice"] + cfg["p_nested_seq"] and depth < 2 and "nested-seq" not in self.q:
                sq = Group("sequence", *self.group_occurs())
                for _ in range(r.randrange(1, 3)):
                    sq.items.append(self.make_leaf(fidx, taken))
                items.append(sq)
                self.features.add("nested-seq" + ("-followed" if i + 1 < n else ""))
            else:
                items.append(self.make_leaf(fidx, taken))
            i += 1
        if depth == 0 and cfg.get("p_wide_content") and r.random() < cfg["p_wide_content"]:
            # a type with some thirty members (a request with many plain fields)
            for _ in range(r.randrange(24, 33)):
                items.append(LocalElement(self.names.fresh(taken), TypeRef(r.choice(["string", "int", "boolean", "long", "double", "date"])),
                                          r.choice([0, 1, 1]), 1))
            self.features.add("wide-type")
        group = Group("sequence", *self.group_occurs(), items) if items or r.random() < 0.5 else None
        attrs = []
        if r.random() < cfg["p_attrs"]:
            for _ in range(r.randrange(1, 3)):
                nm = self.names.fresh(taken)
                leaves = [it for it in items if not isinstance(it, Group) and it.kind == "element"]
                import random as _random
                side = _random.Random("attr-like-element:" + nm.xml + "|".join(it.name.xml for it in leaves))
                if leaves and not any(a.name.snake in {it.name.snake for it in leaves} for a in attrs) \
                        and side.random() < cfg.get("p_attr_named_like_element", 0.1):
                    # an attribute called like one of the elements next to it, in the same or in another spelling (Region / region):
                    # separate symbol spaces in XSD, one field name in Rust
                    e = side.choice(leaves)
                    st = side.choice([x for x in ("pascal", "camel", "snake") if x != e.name.style] + [e.name.style])
                    nm = Name(e.name.words, st)
                    self.features.add("attribute-named-like-an-element")
                t = self.pick_simple_target(fidx)
                if not t.builtin and not self.cfg.get("attr_named_simple", True):
                    t = TypeRef(r.choice(list(BUILTINS)))
                attrs.append(Attr(nm, t, r.random() < 0.4))
            self.features.add("attributes")
        return Content(group, attrs)

    def group_occurs(self):
        r = self.r
        if r.random() < self.cfg["p_enclosing_occurs"] and "enclosing-occurs" not in self.q:
            self.features.add("enclosing-occurs")
            mn = r.choice([0, 1])
            mx = r.choice([1, 1, "unbounded"] + ([] if "occurs-n" in self.q else [3]))
            return mn, mx
        return 1, 1

    def make_leaf(self, fidx, taken, in_choice=False):
        r = self.r
        gels = [c for c in self.created if c.kind == "gelement" and c.file in self.visible(fidx) and c.name.snake not in taken
                and ("cycle-back-reference" not in self.q or c.file not in self.in_progress(fidx))]
        if gels and r.random() < self.cfg["p_ref"] and "element-ref" not in self.q:
            g = r.choice(gels)
            self.lookup_ok(fidx, g)
            taken.add(g.name.snake)
            self.features.add("element-ref" + ("" if g.file == fidx else "-foreign"))
            mn, mx = self.occurs()
            return ElementRef(TypeRef(g.name.xml, g.file, g), mn, mx)
        nm = self.names.fresh(taken)
        t = self.pick_member_type(fidx)
        if self.cfg.get("avoid_nested_same_name") and not t.builtin and t.comp.kind == "complex":
            # yaserde 0.12 misreads a child element that is named like a member of the child's own struct
            inner = {m["name"].xml for m in flat_members(t.comp)}
            for _ in range(20):
                if nm.xml not in inner:
                    break
                taken.discard(nm.snake)
                nm = self.names.fresh(taken)
        if not t.builtin and t.file != fidx:
            self.features.add("member-type-foreign")
        mn, mx = self.occurs()
        return LocalElement(nm, t, mn, mx)

    # ------------------------------------------------------------------ components
    def make_simple(self, fidx, taken_types):
        r = self.r
        nm = self.names.fresh(set(), taken_types)
        derived = r.random() < self.cfg["p_simple_derived"] and "simple-derived" not in self.q
        base = None
        if derived:
            cands = [c for c in self.created if c.kind == "simple" and c.file in self.visible(fidx)]
            if cands:
                c = r.choice(cands)
                base = TypeRef(c.name.xml, c.file, c)
                self.features.add("simple-derived" + ("" if c.file == fidx else "-foreign"))
        if base is None:
            base = TypeRef(r.choice(INT_BUILTINS + STRING_BUILTINS * 4 + ["string"] * 3 + ["boolean", "double", "date"]))
        st = SimpleType(nm, base, Facets(), self.doc(), fidx)
        st.lexical_style = r.choice(["plain", "plain", "plus", "padded", "zeros"])
        ub = st.ultimate_builtin()
        f = st.facets
        if ub in INT_BUILTINS:
            lo, hi = r.randrange(-50, 20), r.randrange(20, 200)
            # keep the facet set satisfiable together with inherited bounds: only narrow inside the base's window
            blo, bhi = int_window(st.base.comp) if not st.base.builtin else builtin_window(ub)
            lo, hi = max(lo, blo), min(hi, bhi)
            if lo > hi:
                lo, hi = blo, bhi
            k = r.random()
            if k < 0.3:
                f.min_inclusive, f.max_inclusive = lo, hi
            elif k < 0.5 and lo - 1 >= -2**31 and hi + 1 <= 2**31 - 1:     # facet values stay i32 (DESIGN §2.1)
                f.min_exclusive, f.max_exclusive = lo - 1, hi + 1
            elif k < 0.65:
                f.min_inclusive = lo
            elif k < 0.8 and hi + 1 <= 2**31 - 1:
                f.max_exclusive = hi + 1
            import random as _random
            side = _random.Random("int-enumeration:" + nm.xml)
            if side.random() < self.cfg.get("p_int_enumeration", 0.2) and hi - lo >= 0:
                # an enumerated integer type (status codes): a run of consecutive numbers, every one listed, in canonical form
                # (simple types carry their text: members written as 007 or +7 would be compared as text, and whether that is
                # right depends on a base type the carrier does not know — C06 tries those forms on the integer carriers)
                a = lo
                b = min(hi, lo + side.randrange(0, 4))
                f.min_inclusive = f.max_inclusive = f.min_exclusive = f.max_exclusive = None
                f.enumeration = [str(x) for x in range(a, b + 1)]
                self.features.add("enumerated-integer-type")
            if st.base.builtin and ub in ("long", "unsignedInt", "unsignedLong", "integer", "nonNegativeInteger", "positiveInteger") \
                    and f.enumeration is None and r.random() < self.cfg.get("wide_facets", 0.0):
                # bounds that are legal for the base type but do not fit an i32 (compile-only profiles: the emitted restriction
                # record holds i32 bounds, what zeep does with a wider one is its business as long as the file compiles)
                f.min_inclusive = f.min_exclusive = f.max_exclusive = None
                f.max_inclusive = r.choice([4294967295, 2**31, 9999999999, 2**63 - 1 if ub != "unsignedInt" else 4294967295])
                if ub in ("long", "integer") and r.random() < 0.5:
                    f.min_inclusive = r.choice([-2**31 - 1, -9999999999])
                self.features.add("facet-bound-beyond-i32")
        elif ub in STRING_BUILTINS:
            k = r.random()
            if k < 0.3:
                f.enumeration = sorted(set(r.choice(["A", "b", "North East", "x-1", "é", "Q&A", "10", "None", "", '2.5"', "C:\\dir"]) for _ in range(r.randrange(1, 6))))
                if not any(x != "" and not any(c in x for c in "<>&\"'") for x in f.enumeration):
                    # nothing but the empty string (and members with markup characters, which the client profiles leave out of
                    # replies): that would leave nothing that yaserde 0.12 can read back (empty text, DESIGN §10)
                    f.enumeration = sorted(set(f.enumeration) | {"A"})
                import random as _random
                if len(f.enumeration) >= 2 and _random.Random("enum-dup:" + nm.xml).random() < 0.3:
                    # the same value listed twice (legal, and harmless for the value space)
                    f.enumeration = f.enumeration + [f.enumeration[0]]
                    self.features.add("enumeration-with-a-repeated-value")
            elif k < 0.5:
                f.min_length, f.max_length = r.randrange(0, 3), r.randrange(3, 12)
            elif k < 0.6:
                f.length = r.randrange(1, 6)
            elif k < 0.75:
                f.max_length = r.randrange(1, 20)
            # a derived type must stay inside its base's value space; keep it simple: derived string types only add
            # facets when the base has none of that family
            if not st.base.builtin:
                inherited = Facets()
                for _, bf in st.facet_chain()[1:]:
                    for key in ("length", "min_length", "max_length", "enumeration"):
                        if getattr(bf, key) is not None:
                            setattr(inherited, key, getattr(bf, key))
                if inherited.enumeration is not None:
                    f.enumeration = ([x for x in inherited.enumeration if x != "" and not any(c in x for c in "<>&\"'")][:1] or inherited.enumeration[:1]) if f.enumeration is not None else None
                    f.length = f.min_length = f.max_length = None
                if inherited.length is not None or inherited.min_length is not None or inherited.max_length is not None:
                    f.length = f.min_length = f.max_length = None
                    if f.enumeration is not None:
                        f.enumeration = None
        return st

    def doc(self):
        r = self.r
        if r.random() < self.cfg["p_doc"]:
            return r.choice(["A plain description.", "Two lines\nof documentation.", "  padded  ", "Uses <angle> & \"quotes\"",
                             "Trailing slash \\", "unicode: é 漢"])
        return None

    def make_complex(self, fidx, taken_types):
        r = self.r
        nm = self.names.fresh(set(), taken_types)
        base = None
        taken = set()
        if r.random() < self.cfg["p_ext"] and "extension" not in self.q:
            cands = [c for c in self.created if c.kind == "complex" and c.file in self.visible(fidx) and ext_depth(c) < 4
                     and ("cycle-back-reference" not in self.q or c.file not in self.in_progress(fidx))]
            if cands:
                other = [c for c in cands if c.file != fidx]
                c = r.choice(other if other and r.random() < self.cfg["p_cross_file"] else cands)
                base = TypeRef(c.name.xml, c.file, c)
                self.lookup_ok(fidx, c)
                taken |= {m_snake for m_snake in flat_member_snakes(c)}
                self.features.add("extension" + ("" if c.file == fidx else "-foreign"))
                import random as _random
                if c.file != fidx and c.name.pascal not in taken_types and \
                        _random.Random("like-base:" + nm.xml + c.name.xml).random() < self.cfg.get("p_derived_named_like_base", 0.25):
                    # order:Address extends common:Address — same local name, two namespaces, two structs
                    taken_types.discard(nm.pascal)
                    nm = Name(c.name.words, c.name.style, c.name.literal)
                    taken_types.add(nm.pascal)
                    self.features.add("derived-type-named-like-its-foreign-base")
        content = self.make_content(fidx, taken)
        import random as _random
        if base is None and _random.Random("attrs-only:" + nm.xml).random() < self.cfg.get("p_attrs_only_type", 0.0):
            # a type that declares attributes and nothing else (a frequent base type)
            if not content.attrs:
                content.attrs.append(Attr(self.names.fresh(taken), TypeRef(r.choice(["string", "int", "boolean"])), r.random() < 0.4))
            content.group = None
            self.features.add("attributes-only-type")
        if base is not None and "extension-attributes" in self.q:
            content.attrs = []
        if base is not None and content.attrs:
            self.features.add("extension-attributes")
            import random as _random
            if _random.Random("ext-attrs-only:" + nm.xml).random() < self.cfg.get("p_ext_attrs_only", 0.25):
                # <extension> with attribute children only: no (not even an empty) sequence
                content.group = None
                self.features.add("extension-attributes-without-sequence")
        ct = ComplexType(nm, content, base, self.doc(), fidx)
        if content.group is not None and content.group.kind == "sequence" and fidx not in self.tns_only and \
                _random.Random("self-member:" + nm.xml).random() < self.cfg.get("p_self_member", 0.0):
            # a tree node and its parent / children: an optional or repeated member of the type itself
            mn = self.names.fresh(taken)
            mx = _random.Random("self-member-max:" + nm.xml).choice([1, 1, "unbounded", 3])
            content.group.items.append(LocalElement(mn, TypeRef(nm.xml, fidx, ct), 0, mx))
            self.features.add("self-referential-member" + ("" if mx == 1 else "-repeated"))
        return ct

    def make_gelement(self, fidx, taken_elems):
        r = self.r
        if r.random() < (0.3 if self.cfg["reuse_names"] else self.cfg.get("p_element_like_type", 0.25)) and fidx not in self.tns_only:
            # the benign idiom <element name="Foo" type="tns:Foo"/>
            free = [c for c in self.files[fidx].components if c.kind == "complex"
                    and not any(g.kind == "gelement" and g.name.xml == c.name.xml for g in self.files[fidx].components)]
            if free:
                c = r.choice(free)
                self.features.add("element-named-like-its-type")
                return GlobalElement(c.name, type=TypeRef(c.name.xml, fidx, c), file=fidx)
        nm = self.names.fresh(set(), taken_elems)
        if r.random() < 0.45:
            t = self.pick_member_type(fidx)
            if not t.builtin or "builtin-typed-global-element" not in self.q:
                self.features.add("typed-global-element" if not t.builtin else "builtin-typed-global-element")
                return GlobalElement(nm, type=t, file=fidx)
        content = self.make_content(fidx, {nm.snake} if self.cfg.get("avoid_nested_same_name") else set(), allow_empty=False)
        if r.random() < 0.1 and content.attrs:
            # an anonymous type that has attributes but no element content
            content.group = Group("sequence", 1, 1, []) if r.random() < 0.5 else None
            self.features.add("anonymous-element-attributes-only")
        return GlobalElement(nm, content=content, file=fidx, doc=self.doc())

    # ------------------------------------------------------------------ whole set
    def schema_set(self):
        r = self.r
        cfg = self.cfg
        n = r.randrange(cfg["files"][0], cfg["files"][1] + 1)
        self.make_files(n)
        import random as _random
        # a WSDL that holds all its schemas inline: decided now, because inside one document no schema is "still being read" when
        # another refers to it — references may go both ways between the schemas
        self.inline_all = bool(cfg["wsdl"]) and n >= 2 and \
            _random.Random("inline:" + "|".join(f.uri or "" for f in self.files)).random() < cfg.get("p_inline_schemas", 0.0)
        plan = []
        for f in self.files:
            plan += [("simple", f.idx)] * r.randrange(cfg["simple_per_file"][0], cfg["simple_per_file"][1] + 1)
            plan += [("complex", f.idx)] * r.randrange(cfg["complex_per_file"][0], cfg["complex_per_file"][1] + 1)
            plan += [("gelement", f.idx)] * r.randrange(cfg["elements_per_file"][0], cfg["elements_per_file"][1] + 1)
        r.shuffle(plan)
        taken_types = {f.idx: set() for f in self.files}
        taken_elems = {f.idx: set() for f in self.files}
        shared = set() if not cfg["reuse_names"] else None
        for kind, fidx in plan:
            # a Rust module has one item namespace: unless the run is about name reuse, elements and types share it
            tt = taken_types[fidx]
            te = taken_elems[fidx] if cfg["reuse_names"] and "element-type-name-clash" not in self.q else tt
            if kind == "simple":
                c = self.make_simple(fidx, tt)
            elif kind == "complex":
                c = self.make_complex(fidx, tt)
            else:
                c = self.make_gelement(fidx, te)
            self.created.append(c)
            self.files[fidx].components.append(c)
        for f in self.files:
            r.shuffle(f.components)                 # declaration order ≠ creation order → forward references
        if cfg["reuse_names"]:
            self.add_decoys()
        if r2_twin(self) < cfg.get("p_twin", 0.0):
            self.add_twin()
        self.rebind_prefix_on_components()
        self.members_declare_prefixes()
        self.spell_defaults()
        ss = SchemaSet(self.files, self.files[0].filename, None, self.features)
        if cfg["wsdl"]:
            self.make_wsdl(ss)
        import random as _random
        style = _random.Random("xml-style:" + "|".join(c.name.xml for f in self.files for c in f.components))
        if style.random() < cfg.get("p_xsd_as_default_ns", 0.15):
            # XML Schema itself as the default namespace of the schema elements (<schema xmlns="http://www.w3.org/2001/XMLSchema">,
            # type="string"), and for a WSDL the WSDL namespace as the default namespace of the definitions around them
            ss.xsd_as_default = True
            ss.wsdl_as_default = style.random() < 0.7
            self.features.add("xml-schema-namespace-as-default")
        return ss

    def add_twin(self):
        """A "twin" file: same layout as an existing file (same components in the same order, same local names — as two versions
        or siblings written from one template), other namespace, other member names and member types. Everything that imports the
        original imports the twin as well. A resolver that confuses the two files (positions, names) gives the twin's types the
        original's members."""
        import copy
        import random

        def own_only(f):
            def refs(c):
                out = []
                for attr in ("base", "type"):
                    t = getattr(c, attr, None)
                    if t is not None:
                        out.append(t)
                content = getattr(c, "content", None)
                if content is not None:
                    def walk(g):
                        for it in g.items:
                            if isinstance(it, Group):
                                walk(it)
                            else:
                                out.append(it.ref if it.kind == "ref" else it.type)
                    if content.group is not None:
                        walk(content.group)
                    out.extend(a.type for a in content.attrs)
                return out
            return all(t.builtin or t.file == f.idx for c in f.components for t in refs(c))

        cands = [f for f in self.files if f.idx >= 1 and f.uri is not None and f.idx not in self.tns_only and f.components
                 and own_only(f) and f.idx not in f.imports]
        if not cands:
            return
        r2 = random.Random("twin:" + "|".join(c.name.xml for f in self.files for c in f.components))
        a = r2.choice(cands)
        memo = {}
        for f in self.files:
            if f is not a:
                for c in f.components:
                    memo[id(c)] = c
        comps = copy.deepcopy(a.components, memo)
        bidx = len(self.files)
        used = {f.uri for f in self.files}
        uri = (a.uri.rstrip("/") + "/twin") if (a.uri.rstrip("/") + "/twin") not in used else a.uri + "-twin2"
        b = SchemaFile(bidx, uri, f"f{bidx}.xsd")
        b.imports = list(a.imports)
        b.prefixes = {(bidx if k == a.idx else k): p for k, p in a.prefixes.items()}
        b.xs_prefix = a.xs_prefix
        b.nested_xmlns = a.nested_xmlns
        swap = {"string": "int", "int": "boolean", "boolean": "string"}

        def retarget(t):
            if t is None or t.builtin:
                return
            if t.file == a.idx:
                t.file = bidx

        def rename(it):
            if it.name.literal is None:
                it.name = Name(it.name.words + ("twin",), it.name.style)
            if it.type.builtin:
                it.type = TypeRef(swap.get(it.type.name, "long" if it.type.name != "long" else "short"))

        def walk(g):
            for it in g.items:
                if isinstance(it, Group):
                    walk(it)
                elif it.kind == "ref":
                    retarget(it.ref)
                else:
                    retarget(it.type)
                    rename(it)

        for c in comps:
            c.file = bidx
            retarget(getattr(c, "base", None))
            if c.kind == "gelement":
                retarget(c.type)
            content = getattr(c, "content", None)
            if content is not None:
                if content.group is not None:
                    walk(content.group)
                for at in content.attrs:
                    retarget(at.type)
                    rename(at)
        b.components = comps
        self.files.append(b)
        avail = [p for p in PREFIX_POOL if p != a.xs_prefix]
        for f in self.files[:-1]:
            if a.idx in f.imports and f is not a:
                f.imports.insert(f.imports.index(a.idx) + 1, bidx)
                f.prefixes[bidx] = next(p for p in avail if p not in f.prefixes.values() and p != f.xs_prefix)
        self.features.add("twin-file")

    def members_declare_prefixes(self):
        """Lexical variation: some members bind the prefix of their type / ref on their own start tag, under a prefix nothing else
        in the file declares (q1, q2, … — the way .NET writes schemas), sometimes the same prefix for different namespaces on
        neighbouring members."""
        import random
        prob = self.cfg.get("p_member_declares_prefix", 0.12)
        if not prob:
            return
        r2 = random.Random("member-xmlns:" + "|".join(c.name.xml for f in self.files for c in f.components))
        for f in self.files:
            if r2.random() >= 0.5:
                continue
            taken = set(f.prefixes.values()) | {f.xs_prefix}
            n = [0]

            def walk(g):
                for it in g.items:
                    if isinstance(it, Group):
                        walk(it)
                        continue
                    t = it.ref if it.kind == "ref" else it.type
                    if t.builtin or self.files[t.file].uri is None or r2.random() >= prob * 2:
                        continue
                    if r2.random() < 0.3:
                        pfx = "q"                      # one prefix, bound anew by each member that uses it
                    else:
                        n[0] += 1
                        pfx = f"q{n[0]}"
                    if pfx in taken:
                        continue
                    it.own_prefix = (pfx, self.files[t.file].uri)
                    self.features.add("member-declares-its-own-prefix")

            for c in f.components:
                content = getattr(c, "content", None)
                if content is not None and content.group is not None:
                    walk(content.group)

    def rebind_prefix_on_components(self):
        """Lexical variation of prefix bindings inside one file: a component binds, on its own start tag, a prefix that the schema
        element binds to another namespace, and uses it for its own references. Before and after that component the outer binding
        holds."""
        import random
        prob = self.cfg.get("p_component_rebinds_prefix", 0.0)
        if not prob:
            return
        r2 = random.Random("rebind:" + "|".join(c.name.xml for f in self.files for c in f.components))

        def refs_of(c):
            out = []
            for attr in ("base", "type"):
                t = getattr(c, attr, None)
                if t is not None:
                    out.append(t)
            content = getattr(c, "content", None)
            if content is not None:
                def walk(g):
                    for it in g.items:
                        if isinstance(it, Group):
                            walk(it)
                        else:
                            out.append(it.ref if it.kind == "ref" else it.type)
                if content.group is not None:
                    walk(content.group)
                out.extend(a.type for a in content.attrs)
            return [t for t in out if not t.builtin]

        for f in self.files:
            if f.nested_xmlns or r2.random() >= prob:
                continue
            foreign = [k for k, p in f.prefixes.items() if k != f.idx and p]
            if len(foreign) < 2:
                continue
            for c in f.components:
                used = {t.file for t in refs_of(c)}
                k2s = [k for k in foreign if k in used]
                k1s = [k for k in foreign if k not in used]
                if k2s and k1s:
                    k2, k1 = r2.choice(k2s), r2.choice(k1s)
                    c.prefix_override = {"bind": k2, "as": f.prefixes[k1], "hides": k1}
                    self.features.add("component-rebinds-a-schema-level-prefix")
                    break

    def spell_defaults(self):
        """XSD lexical variation: write defaults out (minOccurs="1" maxOccurs="1" on elements and groups, use="optional" on
        attributes). Same schema, other spelling. Uses a generator of its own so that the main stream is not shifted."""
        import random
        p = self.cfg.get("p_explicit_defaults", 0.3)
        r2 = random.Random("spell:" + "|".join(c.name.xml for f in self.files for c in f.components))

        def walk(g):
            g.explicit = r2.random() < p
            for it in g.items:
                if isinstance(it, Group):
                    walk(it)
                else:
                    it.explicit = r2.random() < p
                    if it.explicit:
                        self.features.add("explicit-default-occurs")
                    if it.kind == "element" and it.type.builtin and r2.random() < self.cfg.get("p_default_value", 0.15):
                        # a default value says what an *empty* element means; it does not make the element optional
                        it.default = default_lexical(it.type.name, r2.random())
                        if it.default is not None:
                            self.features.add("element-default-value")

        for f in self.files:
            for c in f.components:
                content = getattr(c, "content", None)
                if content is None:
                    continue
                if content.group is not None:
                    walk(content.group)
                for a in content.attrs:
                    a.explicit = r2.random() < p
                    if not a.required and a.type.builtin and r2.random() < self.cfg.get("p_default_value", 0.15):
                        a.default = default_lexical(a.type.name, r2.random())

    def add_decoys(self):
        """Name-collision decoys (C09): for a global element that is referred to by ref= from its own file, another type of that
        file gets a *local* element of the same name and a different type, declared before the referrer, while the global
        element itself is declared last — a by-name lookup that forgets "global" or "kind" binds the reference to the decoy."""
        r = self.r
        for f in self.files:
            holders = [c for c in f.components if c.kind in ("complex", "gelement") and getattr(c, "content", None) is not None
                       and c.content.group is not None]
            for g in [c for c in f.components if c.kind == "gelement"]:
                referrers = [c for c in holders if any(m["kind"] == "ref" and m["target"] is g and not m.get("inherited")
                                                       for m in flat_members(c))]
                if not referrers or r.random() < 0.3:
                    continue
                free = [c for c in holders if c not in referrers and c is not g and g.name.snake not in flat_member_snakes(c)
                        and not any(g.name.snake in flat_member_snakes(d) for d in self.created
                                    if d.kind == "complex" and derives_from(d, c))]
                if not free:
                    continue
                h = r.choice(free)
                decoy_type = "unsignedShort" if not (not g.anonymous and g.type.builtin and g.type.name == "unsignedShort") else "boolean"
                h.content.group.items.append(LocalElement(Name(g.name.words, g.name.style, g.name.literal), TypeRef(decoy_type), 0, 1))
                self.features.add("decoy-local-element")
                # order: the decoy holder first, the global element last (forward reference)
                f.components.remove(h)
                f.components.insert(0, h)
                f.components.remove(g)
                f.components.append(g)
            # twins: a component that is looked up by name from its own file (base= / ref=) gets a namesake of the same kind in
            # an imported namespace (read earlier), and is itself declared after its referrer — a lookup that is lenient about
            # the namespace binds the forward reference to the namesake
            imported = [j for j in dict.fromkeys(f.imports) if j != f.idx and j not in self.in_progress(f.idx)]
            if not imported:
                continue
            for c in list(f.components):
                if c.kind not in ("complex", "gelement") or r.random() < 0.4:
                    continue
                used_here = False
                for d in f.components:
                    if d is c or d.kind not in ("complex", "gelement"):
                        continue
                    if c.kind == "complex" and getattr(d, "base", None) is not None and d.base.comp is c:
                        used_here = True
                    if c.kind == "gelement" and getattr(d, "content", None) is not None and any(
                            m["kind"] == "ref" and m["target"] is c and not m.get("inherited") for m in flat_members(d)):
                        used_here = True
                if not used_here:
                    continue
                j = r.choice(imported)
                other = self.files[j]
                if any(x.name.pascal == c.name.pascal for x in other.components):
                    continue
                nm = Name(c.name.words, c.name.style, c.name.literal)
                if c.kind == "complex":
                    twin = ComplexType(nm, Content(Group("sequence", 1, 1, [LocalElement(Name(("namesake", "marker"), "camel"), TypeRef("boolean"))]), []),
                                       file=j)
                else:
                    twin = GlobalElement(nm, type=TypeRef("boolean"), file=j)
                other.components.append(twin)
                self.features.add("namesake-in-imported-namespace")
                f.components.remove(c)
                f.components.append(c)

    # ------------------------------------------------------------------ WSDL
    def make_wsdl(self, ss):
        r = self.r
        cfg = self.cfg
        f0 = self.files[0]
        # make sure there are enough anonymous/typed global elements to serve as body/header elements
        taken_e = {c.name.pascal for c in f0.components}
        names = Names(r, cfg["keyword_rate"], cfg["styles"], cfg.get("max_words", 3), cfg.get("name_pool"))
        wuri = f0.uri
        share_prefix = False
        import random as _random
        if _random.Random("wsdl-ns:" + "|".join(c.name.xml for c in f0.components)).random() < self.cfg.get("p_wsdl_own_ns", 0.4):
            # the definitions element has a target namespace of its own (messages, port types and bindings live there), the
            # inline schema another one
            wuri = f0.uri.rstrip("/") + "/wsdl"
            self.features.add("wsdl-namespace-differs-from-inline-schema")
            if "wsdl-prefix-rebound-in-inline-schema" not in self.q and f0.prefixes.get(0) and \
                    _random.Random("wsdl-share:" + wuri).random() < self.cfg.get("p_wsdl_share_prefix", 0.5):
                # the usual `tns`: bound to the WSDL's namespace on <definitions>, re-bound to the schema's namespace on the inline schema
                share_prefix = True
                self.features.add("wsdl-prefix-rebound-in-inline-schema")
        w = Wsdl(wuri, names.fresh(set(), set(), style="pascal", allow_keyword=False), names.fresh(set()), names.fresh(set()),
                 names.fresh(set()))
        f0.filename = w.filename
        ss.start = w.filename
        nops = r.randrange(cfg["ops"][0], cfg["ops"][1] + 1)
        op_snakes, op_pascals, msg_names = set(), set(), set()
        for _ in range(nops):
            op_name = names.fresh(op_snakes, op_pascals)
            import random as _random
            r3 = _random.Random("op-name:" + op_name.xml + str(len(w.operations)))
            if r3.random() < self.cfg.get("p_prelude_op_name", 0.12):
                # operations named like prelude / reserved type names (Default, Option, ...): envelope and method names derive from it
                pool = ["default", "option", "string", "vec", "rc", "result", "box", "self", "new", "new", ("c", "to", "f"), ("e", "mail"),
                        ("x", "coordinate"), ("get", "a", "b"), Name(("http", "ping"), "pascal", "HTTPPing"),
                        Name(("xml", "export"), "pascal", "XMLExport")]
                if self.cfg.get("op_names_in_turn"):
                    # one after the other across the programs of a run, so that every one of them is met whatever the seed
                    word = pool[next(_OP_NAME_TURN) % len(pool)]
                else:
                    word = r3.choice(pool)
                if isinstance(word, Name):
                    # leading acronyms: snake_case(PascalCase(name)) is not snake_case(name) (names with digits are left out: where a
                    # word ends next to a digit is a matter of taste, get_v2_data / get_v_2_data)
                    cand = word
                elif isinstance(word, tuple):
                    # single-letter words: case conversion is not idempotent for them (c_to_f -> CToF -> Ctof)
                    cand = Name(word, r3.choice(["snake", "kebab", "dotted"]))
                else:
                    cand = Name((word,), r3.choice(["pascal", "snake", "upper", "camel"]))
                if cand.snake not in op_snakes and cand.pascal not in op_pascals:
                    op_snakes.add(cand.snake)
                    op_pascals.add(cand.pascal)
                    op_name = cand
                    self.features.add("operation-named-like-prelude-type")

            def new_element(fidx_choices):
                fidx = r.choice(fidx_choices)
                tk = {c.name.pascal for c in self.files[fidx].components}
                g = self.make_gelement(fidx, tk)
                clash = any(c.kind != "gelement" and c.name.pascal == g.name.pascal for c in self.files[fidx].components)
                if not g.anonymous and r.random() < 0.7 and not clash:
                    g = GlobalElement(g.name, content=self.make_content(
                        fidx, {g.name.snake} if self.cfg.get("avoid_nested_same_name") else set(), allow_empty=False), file=fidx)
                self.created.append(g)
                self.files[fidx].components.append(g)
                return g

            elem_files = [0] + [j for j in set(f0.imports) if j != 0 and r.random() < 0.5]

            def make_message(nheaders, reuse_part_names=()):
                import random as _random
                parts = []
                pn = set()
                reuse = list(reuse_part_names)
                body_el = new_element(elem_files)
                els = [("body", body_el)] + [("header", new_element(elem_files)) for _ in range(nheaders)]
                hdrs = [g for role, g in els if role == "header"]
                others = [j for j in set(f0.imports) | {0} if hdrs and j != hdrs[0].file]
                if len(hdrs) >= 2 and not reuse_part_names and (hdrs[0].anonymous or not hdrs[0].type.builtin) \
                        and _random.Random("hdr-same-element:" + hdrs[0].name.xml).random() < self.cfg.get("p_headers_share_element", 0.0):
                    # two header parts (primaryToken, backupToken) that carry the same global element. Only in requests and only for
                    # an element that becomes a struct: yaserde 0.12 cannot tell two members of one name apart when it reads, and
                    # its derive does not compile two members of one name that need a visitor (built-in types) (DESIGN §10)
                    k = next(i for i, (role, g) in enumerate(els) if g is hdrs[1])
                    els[k] = ("header", hdrs[0])
                    hdrs[1] = hdrs[0]
                    others = []
                    self.features.add("two-header-parts-of-one-element")
                if len(hdrs) >= 2 and others and _random.Random("hdr-namesake:" + hdrs[0].name.xml).random() < self.cfg.get("p_header_namesakes", 0.0):
                    # two header elements with one local name, in two namespaces (c:Context and tns:Context)
                    fj = _random.Random("hdr-namesake-file:" + hdrs[0].name.xml).choice(sorted(others))
                    if not any(c.name.pascal == hdrs[0].name.pascal for c in self.files[fj].components):
                        twin = GlobalElement(Name(hdrs[0].name.words, hdrs[0].name.style, hdrs[0].name.literal),
                                             content=self.make_content(fj, {hdrs[0].name.snake} if self.cfg.get("avoid_nested_same_name") else set(),
                                                                       allow_empty=False), file=fj)
                        self.created.append(twin)
                        self.files[fj].components.append(twin)
                        k = next(i for i, (role, g) in enumerate(els) if g is hdrs[1])
                        els[k] = ("header", twin)
                        self.features.add("header-elements-share-a-local-name")
                r.shuffle(els)
                body_part = None
                headers = []
                for role, g in els:
                    if reuse and r.random() < 0.6 and reuse[0].snake not in pn:
                        # the same part name as in the operation's other message, for another element
                        nm = reuse.pop(0)
                        pn.add(nm.snake)
                        self.features.add("part-name-shared-between-input-and-output")
                    elif r.random() < cfg["p_part_name_differs"]:
                        nm = names.fresh(pn)
                    else:
                        nm = Name(g.name.words, g.name.style)
                        if nm.snake in pn:
                            nm = names.fresh(pn)
                        pn.add(nm.snake)
                    p = Part(nm, TypeRef(g.name.xml, g.file, g))
                    parts.append(p)
                    if role == "body":
                        body_part = nm
                    else:
                        headers.append(nm)
                r.shuffle(headers)
                import random as _random
                r4 = _random.Random("part-cross:" + "|".join(pt.name.xml for pt in parts))
                if len(parts) >= 2 and r4.random() < self.cfg.get("p_part_element_cross", 0.25):
                    # a part that is called like the *element* of another part of the same message: a part reference in the
                    # binding names parts, never elements
                    i, j = r4.sample(range(len(parts)), 2)
                    en = parts[j].element.comp.name
                    cand = Name(en.words, en.style, en.literal)
                    if cand.snake not in {pt.name.snake for pt in parts}:
                        old_name = parts[i].name
                        parts[i].name = cand
                        if body_part is old_name:
                            body_part = cand
                        headers = [cand if h is old_name else h for h in headers]
                        self.features.add("part-named-like-another-parts-element")
                return Message(names.fresh(msg_names), parts), body_part, headers

            nh_in = r.randrange(cfg["headers"][0], cfg["headers"][1] + 1)
            m_in, body_in, h_in = make_message(nh_in)
            op = Operation(op_name, m_in, None, h_in, [], body_in, None)
            op.in_parts_attr = r.random() < cfg["p_parts_attr"]
            if r.random() >= cfg["p_oneway"] or "one-way" in self.q:
                nh_out = r.randrange(cfg["headers"][0], cfg["headers"][1] + 1)
                m_out, body_out, h_out = make_message(nh_out, [pt.name for pt in m_in.parts])
                op.output, op.out_body, op.out_headers = m_out, body_out, h_out
                op.out_parts_attr = r.random() < cfg["p_parts_attr"]
            else:
                self.features.add("one-way")
            if r.random() < cfg["p_soap_action"]:
                op.soap_action = "http://zv.test/actions/" + op_name.pascal
            if nh_in or op.out_headers:
                self.features.add("soap-headers")
            w.operations.append(op)
        w.share_prefix = share_prefix
        if getattr(self, "inline_all", False):
            # one WSDL, several inline schemas (one per namespace) and no sibling files; the order of the schemas is arbitrary
            ss.inline_all = True
            order = list(range(len(self.files)))
            _random.Random("inline-order:" + wuri).shuffle(order)
            ss.inline_order = order
            self.features.add("several-inline-schemas")
        ss.wsdl = w
        self.features.add("wsdl")


# --------------------------------------------------------------------------------------------------- helpers over the model

def ext_depth(c):
    d = 0
    while getattr(c, "base", None) is not None:
        c = c.base.comp
        d += 1
    return d


def derives_from(d, c):
    while getattr(d, "base", None) is not None:
        d = d.base.comp
        if d is c:
            return True
    return False


def builtin_window(b):
    w = {"byte": (-128, 127), "short": (-32768, 32767), "unsignedByte": (0, 255), "unsignedShort": (0, 65535),
         "unsignedInt": (0, 2**31 - 1), "unsignedLong": (0, 2**31 - 1), "nonNegativeInteger": (0, 2**31 - 1),
         "positiveInteger": (1, 2**31 - 1), "negativeInteger": (-2**31, -1), "nonPositiveInteger": (-2**31, 0)}
    return w.get(b, (-2**31, 2**31 - 1))


def int_window(st):
    """Inclusive integer window [lo, hi] admitted by a simple type's facet chain."""
    lo, hi = builtin_window(st.ultimate_builtin())
    for _, f in st.facet_chain():
        if f.min_inclusive is not None:
            lo = max(lo, f.min_inclusive)
        if f.min_exclusive is not None:
            lo = max(lo, f.min_exclusive + 1)
        if f.max_inclusive is not None:
            hi = min(hi, f.max_inclusive)
        if f.max_exclusive is not None:
            hi = min(hi, f.max_exclusive - 1)
        if f.enumeration is not None and st.ultimate_builtin() in INT_BUILTINS:
            # integer types are enumerated as a run of consecutive numbers (every one of them listed): as good as two bounds
            members = [int(e) for e in f.enumeration]
            lo, hi = max(lo, min(members)), min(hi, max(members))
    return lo, hi


def flat_members(c):
    """Members of a complex type / anonymous element in struct order: inherited first, then own elements (flattened,
    with effective occurrence), then own attributes. Yields dicts."""
    out = []
    base = getattr(c, "base", None)
    if base is not None:
        for m in flat_members(base.comp):
            m = dict(m)
            m["inherited"] = m.get("inherited", 0) + 1
            out.append(m)
    content = c.content
    if content is None:
        return out

    def walk(g, opt, rep, pos):
        for it in g.items:
            if isinstance(it, Group):
                walk(it, opt or it.min == 0 or it.kind == "choice", rep or it.max != 1,
                     "choice" if it.kind == "choice" else "nested-seq")
            else:
                eopt = opt or it.min == 0
                erep = rep or it.max != 1
                if it.kind == "ref":
                    g_el = it.ref.comp
                    out.append(dict(kind="ref", name=g_el.name, target=g_el, decl_file=g_el.file, optional=eopt, repeated=erep,
                                    position=pos, item=it, owner=c))
                else:
                    out.append(dict(kind="element", name=it.name, type=it.type, decl_file=c.file, optional=eopt, repeated=erep,
                                    position=pos, item=it, owner=c))

    if content.group is not None:
        g = content.group
        walk(g, g.min == 0, g.max != 1, "seq")
    for a in content.attrs:
        out.append(dict(kind="attribute", name=a.name, type=a.type, decl_file=c.file, optional=not a.required, repeated=False,
                        position="attribute", item=a, owner=c))
    return out


def flat_member_snakes(c):
    return [m["name"].snake for m in flat_members(c)]


def default_lexical(builtin, pick=None):
    """A valid default value for a builtin, or None for families not bothered with."""
    c = BUILTINS.get(builtin)
    import random as _random
    k = _random.Random("default:" + builtin).random() if pick is None else pick
    if builtin in ("string", "normalizedString"):
        return "n/a" if k < 0.7 else ""
    if builtin == "negativeInteger":
        return "-1"
    if builtin == "positiveInteger":
        return "1"
    if builtin == "nonPositiveInteger":
        return "-1" if k < 0.5 else "0"
    if c and c[0] in "iu":
        return "0" if k < 0.5 else "1"
    if c == "bool":
        return ["false", "true", "0", "1"][int(k * 4) % 4]
    if c in ("f32", "f64"):
        return "1.5" if k < 0.5 else "0"
    return None


def r2_twin(g):
    """Decision whether to add a twin file, drawn outside the main stream (so that profiles without twins are not shifted)."""
    import random
    return random.Random("twin?" + "|".join(c.name.xml for f in g.files for c in f.components)).random()


def generate(r, cfg):
    return Gen(r, cfg).schema_set()
