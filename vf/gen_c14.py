"""C14 workloads: the keyword x naming-position matrix and the payload x text-position matrix, as hand-built models."""
from .model import (Attr, ComplexType, Content, ElementRef, Facets, GlobalElement, Group, KEYWORDS, LocalElement, Message, Name, Operation, Part,
                    SchemaFile, SchemaSet, SimpleType, TypeRef, Wsdl)

POSITIONS = ["local-element", "attribute", "complex-type", "simple-type", "global-element", "operation", "part", "service"]
ALWAYS = ["self", "Self", "crate", "super", "type", "gen", "async", "try", "dyn", "static", "union", "macro_rules"]

PAYLOADS = {
    "quote": 'a"b',
    "backslash": 'a\\b\\',
    "backslash-quote": 'a\\"b',
    "brace": "a{}b{0}c}",
    "newline": "a\nb",
    "carriage-return": "a\rb",
    "comment-close": "a*/b",
    "comment-open": "a/*b",
    "doc-comment": "a///b//!c",
    "code-after-quote": '"; fn zqx_injected() {} //',
    "code-after-paren": "}); std::process::exit(7); ({",
    "non-ascii": "é漢字ß",
    "line-separator": "a b",
    "hash-raw": 'a"#b',
    # what would end a raw string literal, with a backslash in front (a writer that prefers raw strings for backslashes)
    "backslash-then-raw-string-end": 'C\\"#.x(), r#"y',
    "raw-string-end-with-hashes": 'a\\"##b"###c',
    # alphanumeric for char::is_alphanumeric, but neither identifier characters nor XML name characters
    "non-identifier-alphanumerics": "m²₂½①",
    "digits-first": "9³x",
}
MARK = "ZQXMARK"
# white space at the very ends of the text (the marker sits inside): text is text, ends included
PAYLOADS.update({
    "space-in-front": " " + MARK, "space-behind": MARK + " ", "spaces-at-both-ends": "  " + MARK + "  ", "line-feed-behind": MARK + "\n",
    "tabs-at-both-ends": "\t" + MARK + "\t", "no-break-space-at-both-ends": "\u00a0" + MARK + "\u00a0",
})
# valid XSD integer lexical forms that are not (all) valid Rust literals
XSD_LEXICAL = {"wide-integer": "4294967296", "wide-negative-integer": "-9999999999", "plus-sign": "+7", "plus-zero-padded": "+007", "zero-padded": "007", "blank-padded": "  7\t", "minus-zero": "-0"}
TEXT_POSITIONS = ["enumeration", "numeric-facet", "length-facet", "doc-simple", "doc-complex", "target-namespace",
                  "imported-namespace", "address", "soap-action",
                  # the same URI positions with a non-hierarchical URI (urn:...): URL normalisation percent-encodes much less there
                  "target-namespace-opaque-uri", "imported-namespace-opaque-uri", "address-opaque-uri", "soap-action-opaque-uri",
                  # the payload at the very start of the last path segment, where prefix / module abbreviations are taken from
                  "target-namespace-leading", "imported-namespace-leading",
                  # facets the generated restriction check has no counterpart for: wherever their text ends up, it is text
                  "pattern-facet", "white-space-facet", "total-digits-facet", "fraction-digits-facet"]
MARK = "ZQXMARK"


def kw_name(kw):
    words = tuple(w.lower() for w in kw.split("_")) if "_" in kw else (kw.lower(),)
    return Name(words, "snake", kw)


def N(xml, *words):
    return Name(tuple(words or (xml.lower(),)), "pascal", xml)


def base_program(names=None, texts=None):
    """A two-file WSDL program; `names` overrides the name at a naming position, `texts` the text at a text position."""
    names = names or {}
    texts = texts or {}
    uri0 = texts.get("target-namespace", "http://zv.test/c14/service")
    uri1 = texts.get("imported-namespace", "http://zv.test/c14/shared")
    f0 = SchemaFile(0, uri0, "service.wsdl")
    f1 = SchemaFile(1, uri1, "f1.xsd")
    f0.prefixes = {0: "tns", 1: "sh"}
    f0.imports = [1]
    f1.prefixes = {1: "sh"}
    code = SimpleType(names.get("simple-type", N("Code")), TypeRef("string"),
                      Facets(enumeration=[texts.get("enumeration", "ALPHA"), "BETA"]), texts.get("doc-simple"), 1)
    level = SimpleType(N("Level"), TypeRef("int"), Facets(min_inclusive=texts.get("numeric-facet", 1), max_inclusive=9, unchecked=[
        (k, texts[p]) for k, p in (("totalDigits", "total-digits-facet"), ("fractionDigits", "fraction-digits-facet")) if p in texts] or None), None, 1)
    tag = SimpleType(N("Tag"), TypeRef("string"), Facets(max_length=texts.get("length-facet", 12), unchecked=[
        (k, texts[p]) for k, p in (("pattern", "pattern-facet"), ("whiteSpace", "white-space-facet")) if p in texts] or None), None, 1)
    item = ComplexType(names.get("complex-type", N("Item")),
                       Content(Group("sequence", 1, 1, [
                           LocalElement(names.get("local-element", N("label")), TypeRef("string")),
                           LocalElement(N("code"), TypeRef(code.name.xml, 1, code), 0, 1),
                           LocalElement(N("level"), TypeRef(level.name.xml, 1, level), 0, 1),
                           LocalElement(N("tag"), TypeRef(tag.name.xml, 1, tag), 0, "unbounded"),
                       ]), [Attr(names.get("attribute", N("id")), TypeRef("string"), True)]),
                       None, texts.get("doc-complex"), 1)
    # a global element of the imported namespace that the request refers to by ref=: the request struct then has a member of
    # another namespace, whose URI is declared on the struct
    marker = GlobalElement(N("Marker"), type=TypeRef("string"), file=1)
    f1.components = [code, level, tag, item, marker]
    req = GlobalElement(names.get("global-element", N("Submit")), content=Content(Group("sequence", 1, 1, [
        LocalElement(N("item"), TypeRef(item.name.xml, 1, item)), ElementRef(TypeRef(marker.name.xml, 1, marker), 0, 1),
        LocalElement(N("note"), TypeRef("string"), 0, 1)]), []), file=0)
    resp = GlobalElement(N("SubmitResult", "submit", "result"), content=Content(Group("sequence", 1, 1, [
        LocalElement(N("ok"), TypeRef("boolean"))]), []), file=0)
    hdr = GlobalElement(N("Session"), content=Content(Group("sequence", 1, 1, [LocalElement(N("token"), TypeRef("string"))]), []), file=0)
    f0.components = [req, resp, hdr]
    body_part = names.get("part", N("parameters"))
    m_in = Message(N("SubmitIn", "submit", "in"), [Part(body_part, TypeRef(req.name.xml, 0, req)),
                                                   Part(N("session"), TypeRef(hdr.name.xml, 0, hdr))])
    m_out = Message(N("SubmitOut", "submit", "out"), [Part(N("parameters"), TypeRef(resp.name.xml, 0, resp))])
    op = Operation(names.get("operation", N("Submit")), m_in, m_out, [N("session")], [], body_part, N("parameters"))
    op.in_parts_attr = True
    op.out_parts_attr = False
    op.soap_action = texts.get("soap-action", "http://zv.test/c14/actions/Submit")
    w = Wsdl(uri0, names.get("service", N("Orders")), N("OrdersPort", "orders", "port"), N("OrdersPortType", "orders", "port", "type"),
             N("OrdersBinding", "orders", "binding"), [op], texts.get("address", "http://127.0.0.1:9/c14"))
    return SchemaSet([f0, f1], "service.wsdl", w, set())


SNAKE_POSITIONS = ["local-element", "attribute", "global-element", "operation", "part"]


def keyword_matrix(keywords=None, case_variants=None):
    """(keyword spelling, position, program). Besides the keyword itself, `Capitalized` and `UPPER` spellings are placed where
    the generator derives a snake_case identifier from the name (they become the keyword only after that conversion)."""
    out = []
    for kw in keywords or KEYWORDS:
        for pos in POSITIONS:
            ss = base_program(names={pos: kw_name(kw)})
            ss.features = {f"keyword:{kw}", f"position:{pos}"}
            out.append((kw, pos, ss))
        if case_variants is None or kw in case_variants:
            for spelled in {kw.capitalize(), kw.upper()} - {kw}:
                if kw == "Self":
                    continue
                for pos in SNAKE_POSITIONS:
                    words = tuple(w.lower() for w in kw.split("_"))
                    ss = base_program(names={pos: Name(words, "snake", spelled)})
                    ss.features = {f"keyword:{spelled}", f"position:{pos}"}
                    out.append((spelled, pos, ss))
    return out


WEIRD_NAMES = ["été", "漢字", "a.b", "a-b", "_lead", "x.1", "naïve-Name", "ΑΒΓ", "a·b", "İx", "x__y", "A1B2", "e\u0301", "ǅ", "ß",
               "a.b.c-d_e", "ºrd", "Ünï_cödé",
               # names of the Rust prelude and of items the generated code itself relies on: a struct of that name in a module
               # must not capture the generated code's own uses of the name
               "Option", "Vec", "String", "Box", "Rc", "Result", "Default", "Some", "None", "Ok", "Err", "Debug", "Clone",
               "option", "string", "date", "dateTime", "language", "int", "boolean", "Restrictions", "MultiRef", "SoapError",
               "Header", "Body", "Envelope", "Fault",
               # reserved names wrapped in separators that case conversion drops
               "_self", "self_", "_Option", "Vec-", "string.", "__default", "-rc-", "Self.",
               # names that case conversion empties or leaves digit-led, and name characters of XML that are not identifier
               # characters of Rust (U+2070-218F are name start characters: H₂O, U+2040 is a name character)
               "_", "__", "_1", "_1abc", "_-_", "H₂O", "x₂", "a⁀b", "ⅷ", "_._"]


YASERDE_MEMBER_POSITIONS = ("local-element", "attribute")


def weird_name_matrix():
    """Legal NCNames that are awkward for case conversion (non-ASCII letters, dots, dashes, digits, combining marks) in every
    naming position. The expected Rust spelling is not predicted: the claim is "parses, compiles, component still there"."""
    import unicodedata
    out = []
    for nm in WEIRD_NAMES:
        for pos in POSITIONS:
            if pos in YASERDE_MEMBER_POSITIONS and any(unicodedata.category(c) == "No" for c in nm):
                # yaserde_derive 0.12 makes identifiers of its own out of a member's rename label and panics on a label with a
                # character like U+2082 (it copes with '.', '-', U+00B7): nothing a generator could emit for such a member
                # compiles, so the cell says nothing about zeep (DESIGN §10)
                continue
            ss = base_program(names={pos: Name((nm.lower(),), "snake", nm)})
            ss.features = {f"weird-name:{nm}", f"position:{pos}"}
            out.append((nm, pos, ss))
    return out


def payload_matrix():
    out = []
    for cls, text in XSD_LEXICAL.items():
        for pos in ("numeric-facet", "length-facet"):
            if pos == "length-facet" and text.startswith("-"):
                continue
            ss = base_program(texts={pos: text})
            ss.features = {f"payload:xsd-lexical-{cls}", f"text-position:{pos}"}
            out.append((f"xsd-lexical-{cls}", pos, text, ss))
    for cls, payload in PAYLOADS.items():
        for pos in TEXT_POSITIONS:
            marked = payload if MARK in payload else f"{MARK}{payload}{MARK}"
            if pos.endswith("-leading"):
                text = "http://zv.test/c14/" + payload + MARK
                ss = base_program(texts={pos[:-len("-leading")]: text})
                ss.features = {f"payload:{cls}", f"text-position:{pos}"}
                out.append((cls, pos, text, ss))
                continue
            if pos.endswith("-opaque-uri"):
                ss = base_program(texts={pos[:-len("-opaque-uri")]: "urn:zv:c14:" + marked})
                ss.features = {f"payload:{cls}", f"text-position:{pos}"}
                out.append((cls, pos, "urn:zv:c14:" + marked, ss))
                continue
            if pos in ("target-namespace", "imported-namespace"):
                text = "http://zv.test/c14/" + marked
            elif pos in ("address", "soap-action"):
                text = "http://127.0.0.1:9/c14/" + marked
            elif pos == "numeric-facet":
                text = "5" + marked
            elif pos == "length-facet":
                text = "12" + marked
            elif pos in ("total-digits-facet", "fraction-digits-facet"):
                text = "3" + marked
            else:
                text = marked
            ss = base_program(texts={pos: text})
            ss.features = {f"payload:{cls}", f"text-position:{pos}"}
            out.append((cls, pos, text, ss))
    return out
