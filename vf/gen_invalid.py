"""Grammar-generated invalid / hostile schema documents (workload stream 2 of C13). Each case is
(label, {file: text}, start). Labels are abstract so they can serve in signatures."""

import re
from xml.sax.saxutils import quoteattr as qa

XS = 'xmlns:xs="http://www.w3.org/2001/XMLSchema"'
T = "http://zv.test/inv"


def schema(body, extra="", tns=T):
    return f'<?xml version="1.0"?><xs:schema {XS} xmlns:t="{tns}" targetNamespace="{tns}" elementFormDefault="qualified" {extra}>{body}</xs:schema>'


def wsdl(types="", messages="", port="", binding="", service="", tns=T):
    return (f'<?xml version="1.0"?><wsdl:definitions xmlns:wsdl="http://schemas.xmlsoap.org/wsdl/" '
            f'xmlns:soap="http://schemas.xmlsoap.org/wsdl/soap/" {XS} xmlns:t="{tns}" targetNamespace="{tns}">'
            f'{types}{messages}{port}{binding}{service}</wsdl:definitions>')


GOOD_TYPES = ('<wsdl:types>' + schema('<xs:element name="Req"><xs:complexType><xs:sequence><xs:element name="a" type="xs:int"/>'
              '</xs:sequence></xs:complexType></xs:element><xs:element name="Res" type="xs:string"/>'
              '<xs:element name="Hdr"><xs:complexType><xs:sequence><xs:element name="h" type="xs:string"/></xs:sequence>'
              '</xs:complexType></xs:element>').split("?>", 1)[1] + '</wsdl:types>')
GOOD_MSG = ('<wsdl:message name="In"><wsdl:part name="p" element="t:Req"/><wsdl:part name="h" element="t:Hdr"/></wsdl:message>'
            '<wsdl:message name="Out"><wsdl:part name="p" element="t:Res"/></wsdl:message>')
GOOD_PORT = '<wsdl:portType name="P"><wsdl:operation name="Op"><wsdl:input message="t:In"/><wsdl:output message="t:Out"/></wsdl:operation></wsdl:portType>'
GOOD_BIND = ('<wsdl:binding name="B" type="t:P"><soap:binding style="document" transport="http://schemas.xmlsoap.org/soap/http"/>'
             '<wsdl:operation name="Op"><soap:operation soapAction="http://zv.test/a"/><wsdl:input><soap:header message="t:In" part="h" use="literal"/>'
             '<soap:body use="literal" parts="p"/></wsdl:input><wsdl:output><soap:body use="literal"/></wsdl:output></wsdl:operation></wsdl:binding>')
GOOD_SVC = '<wsdl:service name="S"><wsdl:port name="P" binding="t:B"><soap:address location="http://127.0.0.1:9/x"/></wsdl:port></wsdl:service>'


def cases():
    out = []

    def xsd(label, body, extra=""):
        out.append((label, {"a.xsd": schema(body, extra)}, "a.xsd"))

    def ws(label, **kw):
        parts = dict(types=GOOD_TYPES, messages=GOOD_MSG, port=GOOD_PORT, binding=GOOD_BIND, service=GOOD_SVC)
        parts.update(kw)
        out.append((label, {"a.wsdl": wsdl(**parts)}, "a.wsdl"))

    # ---- missing required attributes / children at each site
    xsd("complexType-without-name", '<xs:complexType><xs:sequence><xs:element name="a" type="xs:int"/></xs:sequence></xs:complexType>')
    xsd("simpleType-without-name", '<xs:simpleType><xs:restriction base="xs:string"/></xs:simpleType>')
    xsd("global-element-without-name", '<xs:element type="xs:string"/>')
    xsd("local-element-without-name", '<xs:complexType name="C"><xs:sequence><xs:element type="xs:int"/></xs:sequence></xs:complexType>')
    xsd("attribute-without-name", '<xs:complexType name="C"><xs:attribute type="xs:int"/></xs:complexType>')
    xsd("extension-without-base", '<xs:complexType name="C"><xs:complexContent><xs:extension><xs:sequence/></xs:extension></xs:complexContent></xs:complexType>')
    xsd("complexContent-without-extension", '<xs:complexType name="C"><xs:complexContent/></xs:complexType>')
    xsd("restriction-without-base", '<xs:simpleType name="S"><xs:restriction><xs:enumeration value="a"/></xs:restriction></xs:simpleType>')
    xsd("simpleType-empty", '<xs:simpleType name="S"/>')
    xsd("enumeration-without-value", '<xs:simpleType name="S"><xs:restriction base="xs:string"><xs:enumeration/></xs:restriction></xs:simpleType>')
    for f in ["minInclusive", "maxInclusive", "minExclusive", "maxExclusive", "length", "minLength", "maxLength", "pattern",
              "totalDigits", "fractionDigits", "whiteSpace"]:
        xsd(f"facet-without-value:{f}", f'<xs:simpleType name="S"><xs:restriction base="xs:int"><xs:{f}/></xs:restriction></xs:simpleType>')
    xsd("list-without-itemType", '<xs:simpleType name="S"><xs:list/></xs:simpleType>')
    xsd("list-inner-without-restriction", '<xs:simpleType name="S"><xs:list><xs:simpleType/></xs:list></xs:simpleType>')
    xsd("union-empty", '<xs:simpleType name="S"><xs:union/></xs:simpleType>')
    xsd("union-inner-empty", '<xs:simpleType name="S"><xs:union><xs:simpleType/></xs:union></xs:simpleType>')
    xsd("union-membertypes-empty", '<xs:simpleType name="S"><xs:union memberTypes=""/></xs:simpleType>')
    xsd("ref-dangling", '<xs:complexType name="C"><xs:sequence><xs:element ref="t:Nope"/></xs:sequence></xs:complexType>')
    xsd("ref-unknown-prefix", '<xs:complexType name="C"><xs:sequence><xs:element ref="q:Nope"/></xs:sequence></xs:complexType>')
    xsd("ref-empty", '<xs:complexType name="C"><xs:sequence><xs:element ref=""/></xs:sequence></xs:complexType>')
    xsd("ref-to-simpleType", '<xs:simpleType name="S"><xs:restriction base="xs:string"/></xs:simpleType><xs:complexType name="C"><xs:sequence><xs:element ref="t:S"/></xs:sequence></xs:complexType>')
    xsd("ref-to-nameless-thing", '<xs:complexType name="C"><xs:sequence><xs:element ref="t:sequence"/></xs:sequence></xs:complexType>')
    xsd("base-dangling", '<xs:complexType name="C"><xs:complexContent><xs:extension base="t:Nope"/></xs:complexContent></xs:complexType>')
    xsd("base-is-simple", '<xs:simpleType name="S"><xs:restriction base="xs:string"/></xs:simpleType><xs:complexType name="C"><xs:complexContent><xs:extension base="t:S"/></xs:complexContent></xs:complexType>')
    xsd("base-is-element", '<xs:element name="E" type="xs:string"/><xs:complexType name="C"><xs:complexContent><xs:extension base="t:E"/></xs:complexContent></xs:complexType>')
    xsd("attribute-ref-xml", '<xs:complexType name="C"><xs:attribute ref="xml:lang"/><xs:attribute ref="xmlfoo"/></xs:complexType>')
    xsd("any-and-anyAttribute", '<xs:complexType name="C"><xs:sequence><xs:any/><xs:any/></xs:sequence><xs:anyAttribute/></xs:complexType>')
    xsd("element-anonymous-simple", '<xs:element name="E"><xs:simpleType><xs:restriction base="xs:int"/></xs:simpleType></xs:element>')
    xsd("group-ref", '<xs:group name="G"><xs:sequence><xs:element name="a" type="xs:int"/></xs:sequence></xs:group><xs:complexType name="C"><xs:group ref="t:G"/></xs:complexType>')
    xsd("group-ref-self", '<xs:group name="G"><xs:sequence><xs:group ref="t:G"/></xs:sequence></xs:group>')
    # ---- recursion
    xsd("recursion:ref-self", '<xs:element name="Folder"><xs:complexType><xs:sequence><xs:element ref="t:Folder" minOccurs="0"/></xs:sequence></xs:complexType></xs:element>')
    xsd("recursion:ref-mutual", '<xs:element name="A"><xs:complexType><xs:sequence><xs:element ref="t:B"/></xs:sequence></xs:complexType></xs:element>'
        '<xs:element name="B"><xs:complexType><xs:sequence><xs:element ref="t:A"/></xs:sequence></xs:complexType></xs:element>')
    xsd("recursion:base-self", '<xs:complexType name="C"><xs:complexContent><xs:extension base="t:C"><xs:sequence/></xs:extension></xs:complexContent></xs:complexType>')
    xsd("recursion:base-mutual", '<xs:complexType name="A"><xs:complexContent><xs:extension base="t:B"/></xs:complexContent></xs:complexType>'
        '<xs:complexType name="B"><xs:complexContent><xs:extension base="t:A"/></xs:complexContent></xs:complexType>')
    xsd("recursion:base-cycle-3", "".join(
        f'<xs:complexType name="{a}"><xs:complexContent><xs:extension base="t:{b}"><xs:sequence><xs:element name="x{a}" type="xs:int"/></xs:sequence></xs:extension></xs:complexContent></xs:complexType>'
        for a, b in (("A", "B"), ("B", "C"), ("C", "A"))))
    xsd("recursion:type-self", '<xs:complexType name="Node"><xs:sequence><xs:element name="next" type="t:Node" minOccurs="0"/></xs:sequence></xs:complexType>')
    xsd("recursion:ref-through-base", '<xs:complexType name="A"><xs:complexContent><xs:extension base="t:B"/></xs:complexContent></xs:complexType>'
        '<xs:complexType name="B"><xs:sequence><xs:element ref="t:E"/></xs:sequence></xs:complexType>'
        '<xs:element name="E"><xs:complexType><xs:complexContent><xs:extension base="t:A"/></xs:complexContent></xs:complexType></xs:element>')
    xsd("recursion:simple-base-self", '<xs:simpleType name="S"><xs:restriction base="t:S"/></xs:simpleType>')
    # ---- forward-reference fan-out (re-parsed on every use)
    for depth in (6, 10, 14, 18, 22):
        body = []
        for d in range(depth):
            kids = "".join(f'<xs:element ref="t:E{d + 1}x{k}"/>' for k in range(2)) if d + 1 < depth else '<xs:element name="leaf" type="xs:int"/>'
            for k in range(2):
                body.append(f'<xs:element name="E{d}x{k}"><xs:complexType><xs:sequence>{kids}</xs:sequence></xs:complexType></xs:element>')
        xsd(f"forward-ref-fanout:depth={depth}", "".join(body))
        chain = "".join(
            f'<xs:complexType name="T{d}"><xs:complexContent><xs:extension base="t:T{d + 1}"><xs:sequence><xs:element name="f{d}" type="xs:int"/></xs:sequence></xs:extension></xs:complexContent></xs:complexType>'
            for d in range(depth * 4)) + f'<xs:complexType name="T{depth * 4}"><xs:sequence/></xs:complexType>'
        xsd(f"forward-base-chain:depth={depth * 4}", chain)
    # ---- namespaces
    for n in (12, 120, 260, 300, 600):
        decl = " ".join(f'xmlns:p{i}="http://zv.test/x{i}/types"' for i in range(n))
        xsd(f"colliding-namespaces:n={n}", '<xs:complexType name="C"><xs:sequence><xs:element name="a" type="xs:int"/></xs:sequence></xs:complexType>', decl)
    xsd("namespace-empty-uri", '<xs:complexType name="C"><xs:sequence/></xs:complexType>', 'xmlns:e=""' if False else 'xmlns:e="x"')
    out.append(("targetNamespace-empty", {"a.xsd": schema('<xs:complexType name="C"><xs:sequence/></xs:complexType>', tns="")}, "a.xsd"))
    out.append(("targetNamespace-odd", {"a.xsd": schema('<xs:complexType name="C"><xs:sequence/></xs:complexType>', tns="///")}, "a.xsd"))
    out.append(("targetNamespace-dots", {"a.xsd": schema('<xs:complexType name="C"><xs:sequence/></xs:complexType>', tns="...")}, "a.xsd"))
    out.append(("targetNamespace-nonascii", {"a.xsd": schema('<xs:complexType name="C"><xs:sequence/></xs:complexType>', tns="urn:é漢-ß/Ǆ")}, "a.xsd"))
    xsd("nested-targetNamespace", '<xs:complexType name="C" targetNamespace="http://zv.test/other"><xs:sequence><xs:element name="a" type="xs:int" targetNamespace=""/></xs:sequence></xs:complexType>')
    # ---- imports
    xsd("import-without-namespace", '<xs:import schemaLocation="b.xsd"/>')
    xsd("import-without-location", '<xs:import namespace="http://zv.test/b"/>')
    xsd("import-missing-file", '<xs:import namespace="http://zv.test/b" schemaLocation="nope.xsd"/>')
    out.append(("import-self", {"a.xsd": schema(f'<xs:import namespace="{T}" schemaLocation="a.xsd"/><xs:complexType name="C"><xs:sequence/></xs:complexType>')}, "a.xsd"))
    out.append(("import-non-xml", {"a.xsd": schema('<xs:import namespace="http://zv.test/b" schemaLocation="b.xsd"/>'), "b.xsd": "not xml"}, "a.xsd"))
    out.append(("import-non-schema", {"a.xsd": schema('<xs:import namespace="http://zv.test/b" schemaLocation="b.xsd"/>'), "b.xsd": "<html/>"}, "a.xsd"))
    out.append(("import-wsdl-from-xsd", {"a.xsd": schema('<xs:import namespace="http://zv.test/b" schemaLocation="b.xsd"/>'),
                                         "b.xsd": wsdl(GOOD_TYPES, GOOD_MSG, GOOD_PORT, GOOD_BIND, GOOD_SVC)}, "a.xsd"))
    out.append(("start-file-missing", {"a.xsd": schema("")}, "zzz.xsd"))
    out.append(("start-file-empty-name", {"a.xsd": schema("")}, ""))
    out.append(("no-files", {}, "a.xsd"))
    # ---- deep nesting
    for depth in (50, 400, 900, 3000):
        body = '<xs:complexType name="C">' + "<xs:sequence>" * depth + '<xs:element name="a" type="xs:int"/>' + "</xs:sequence>" * depth + "</xs:complexType>"
        xsd(f"deep-sequence:depth={depth}", body)
        body = '<xs:element name="E0">' + "".join(f'<xs:complexType><xs:sequence><xs:element name="E{i + 1}">' for i in range(depth)) + \
               "".join('</xs:element></xs:sequence></xs:complexType>' for _ in range(depth)) + "</xs:element>"
        xsd(f"deep-anonymous-elements:depth={depth}", body)
    # ---- nesting far beyond anything a schema needs (an XML parser that recurses per level must not take the stack down)
    for depth in (20_000, 100_000):
        out.append((f"deep-plain-elements:depth={depth}", {"a.xsd": "<a>" * depth + "</a>" * depth}, "a.xsd"))
        xsd(f"deep-inside-annotation:depth={depth}", "<xs:annotation>" + "<x>" * depth + "</x>" * depth + "</xs:annotation>")
        xsd(f"deep-choice:depth={depth}", '<xs:complexType name="C"><xs:sequence>' + "<xs:choice>" * depth + '<xs:element name="a" type="xs:int"/>'
            + "</xs:choice>" * depth + "</xs:sequence></xs:complexType>")
        xsd(f"deep-unclosed:depth={depth}", "<xs:sequence>" * depth)
        out.append((f"deep-in-imported-file:depth={depth}", {"a.xsd": schema('<xs:import namespace="http://zv.test/b" schemaLocation="b.xsd"/>'),
                                                             "b.xsd": "<b a='>'>" * depth + "</b>" * depth}, "a.xsd"))
    # ---- the same depth where a scan of the raw text (rather than a parse) can lose count: markup characters inside attribute
    # values, and close tags inside comments, CDATA sections and processing instructions, which are not tags
    depth = 100_000
    for tag, deco in (("attr-value-slash-gt", ' v="k/>"'), ("attr-value-slash-gt-single-quotes", " v='k/>'"), ("attr-value-gt", ' v="a>b"'),
                      ("attr-value-quote-in-quotes", """ v='"/>' w="'/>" """), ("attr-value-lt-entity", ' v="&lt;/a>"'),
                      ("attr-spaces-and-line-breaks", '\n  v = "/>"\n'), ("attr-value-looks-like-close-tag", ' v="</a>"'.replace("<", "&lt;"))):
        out.append((f"deep-plain-elements:start-tag={tag}:depth={depth}", {"a.xsd": f"<a{deco}>" * depth + "</a>" * depth}, "a.xsd"))
        xsd(f"deep-sequence:start-tag={tag}:depth={depth}", '<xs:complexType name="C">' + f"<xs:sequence{deco}>" * depth + "</xs:sequence>" * depth + "</xs:complexType>")
    for tag, filler in (("comment-with-close-tags", "<!-- </a></a> -->"), ("cdata-with-close-tags", "<![CDATA[</a></a>]]>"),
                        ("pi-with-close-tags", "<?p </a></a>?>"), ("comment-with-empty-element-tags", "<!-- <a/><a/> /> -->")):
        out.append((f"deep-plain-elements:between={tag}:depth={depth}", {"a.xsd": ("<a>" + filler) * depth + "</a>" * depth}, "a.xsd"))
    # ---- every garbage value (the mutation stream's pool, plus white space of several kinds) at every attribute that the reader
    # looks at, one at a time: what the mutation stream reaches by luck, once each
    from .mutate_xml import GARBAGE
    garbage = list(GARBAGE) + ["\t", "  \n ", " a.xsd ", "a.xsd b.xsd", "\u00a0", "./", "../a.xsd", "/", "a.xsd/", "%20"]
    sites = {
        "import@schemaLocation": lambda v: schema(f'<xs:import namespace="http://zv.test/b" schemaLocation={qa(v)}/>'),
        "import@namespace": lambda v: schema(f'<xs:import namespace={qa(v)} schemaLocation="b.xsd"/>'),
        "element@type": lambda v: schema(f'<xs:complexType name="C"><xs:sequence><xs:element name="a" type={qa(v)}/></xs:sequence></xs:complexType>'),
        "element@ref": lambda v: schema(f'<xs:complexType name="C"><xs:sequence><xs:element ref={qa(v)}/></xs:sequence></xs:complexType>'),
        "element@name": lambda v: schema(f'<xs:complexType name="C"><xs:sequence><xs:element name={qa(v)} type="xs:int"/></xs:sequence></xs:complexType>'),
        "complexType@name": lambda v: schema(f'<xs:complexType name={qa(v)}><xs:sequence><xs:element name="a" type="xs:int"/></xs:sequence></xs:complexType>'),
        "extension@base": lambda v: schema(f'<xs:complexType name="C"><xs:complexContent><xs:extension base={qa(v)}><xs:sequence/></xs:extension></xs:complexContent></xs:complexType>'),
        "restriction@base": lambda v: schema(f'<xs:simpleType name="S"><xs:restriction base={qa(v)}><xs:maxLength value="3"/></xs:restriction></xs:simpleType>'),
        "facet@value": lambda v: schema(f'<xs:simpleType name="S"><xs:restriction base="xs:int"><xs:maxInclusive value={qa(v)}/><xs:enumeration value={qa(v)}/></xs:restriction></xs:simpleType>'),
        "element@maxOccurs": lambda v: schema(f'<xs:complexType name="C"><xs:sequence maxOccurs={qa(v)}><xs:element name="a" type="xs:int" maxOccurs={qa(v)} minOccurs={qa(v)}/></xs:sequence></xs:complexType>'),
        "schema@targetNamespace": lambda v: f'<?xml version="1.0"?><xs:schema {XS} targetNamespace={qa(v)}><xs:complexType name="C"><xs:sequence><xs:element name="a" type="xs:int"/></xs:sequence></xs:complexType></xs:schema>',
        "part@element": lambda v: wsdl(types=GOOD_TYPES, messages=GOOD_MSG.replace('element="t:Req"', f"element={qa(v)}"), port=GOOD_PORT, binding=GOOD_BIND, service=GOOD_SVC),
        "address@location": lambda v: wsdl(types=GOOD_TYPES, messages=GOOD_MSG, port=GOOD_PORT, binding=GOOD_BIND, service=re.sub(r'location="[^"]*"', lambda m: "location=" + qa(v), GOOD_SVC)),
        "operation@soapAction": lambda v: wsdl(types=GOOD_TYPES, messages=GOOD_MSG, port=GOOD_PORT, binding=re.sub(r'soapAction="[^"]*"', lambda m: "soapAction=" + qa(v), GOOD_BIND), service=GOOD_SVC),
    }
    for site, make in sites.items():
        for gi, v in enumerate(garbage):
            name = "a.wsdl" if site.split("@")[0] in ("part", "address", "operation") else "a.xsd"
            files = {name: make(v)}
            if site.startswith("import@"):
                files["b.xsd"] = schema("", tns="http://zv.test/b")
            out.append((f"garbage-attribute:{site}:value-{gi}", files, name))
    # ---- documents with a DOCTYPE: entities that expand to deep nesting (no single one deeper than any limit on the literal text),
    # to a huge text (billion laughs), to themselves, external ones
    def dtd_doc(entities, body):
        decl = "".join(f"<!ENTITY {n} '{v}'>" for n, v in entities)
        return (f'<?xml version="1.0"?><!DOCTYPE xs:schema [{decl}]><xs:schema {XS} xmlns:t="{T}" targetNamespace="{T}">'
                f'<xs:complexType name="C">{body}</xs:complexType></xs:schema>')
    for per, chain in ((1000, 10), (500, 40), (100, 200)):
        ents = [("e0", "<xs:sequence>" * per + '<xs:element name="a" type="xs:int"/>' + "</xs:sequence>" * per)]
        for k in range(1, chain):
            ents.append((f"e{k}", "<xs:sequence>" * per + f"&e{k - 1};" + "</xs:sequence>" * per))
        out.append((f"dtd-entities-nest-deeper-than-the-text:per-entity={per}:chain={chain}", {"a.xsd": dtd_doc(ents, f"&e{chain - 1};")}, "a.xsd"))
    laughs = [("l0", "lol")] + [(f"l{k}", f"&l{k - 1};" * 10) for k in range(1, 10)]
    out.append(("dtd-billion-laughs-in-documentation", {"a.xsd": dtd_doc(laughs, "<xs:annotation><xs:documentation>&l9;</xs:documentation></xs:annotation><xs:sequence/>")}, "a.xsd"))
    out.append(("dtd-billion-laughs-in-attribute", {"a.xsd": dtd_doc(laughs, '<xs:sequence><xs:element name="&l9;" type="xs:int"/></xs:sequence>')}, "a.xsd"))
    out.append(("dtd-entity-refers-to-itself", {"a.xsd": dtd_doc([("a", "&b;"), ("b", "&a;")], "<xs:sequence>&a;</xs:sequence>")}, "a.xsd"))
    out.append(("dtd-external-entity", {"a.xsd": f'<?xml version="1.0"?><!DOCTYPE xs:schema [<!ENTITY x SYSTEM "file:///etc/passwd">]><xs:schema {XS} targetNamespace="{T}">'
                                                 '<xs:annotation><xs:documentation>&x;</xs:documentation></xs:annotation></xs:schema>'}, "a.xsd"))
    out.append(("dtd-plain-doctype", {"a.xsd": f'<?xml version="1.0"?><!DOCTYPE xs:schema SYSTEM "XMLSchema.dtd"><xs:schema {XS} targetNamespace="{T}"/>'}, "a.xsd"))
    out.append(("dtd-in-imported-file", {"a.xsd": schema('<xs:import namespace="http://zv.test/b" schemaLocation="b.xsd"/>'),
                                         "b.xsd": dtd_doc(ents, f"&e{chain - 1};").replace(T, "http://zv.test/b")}, "a.xsd"))
    # ---- a pretty-printed schema cut right after each of its line breaks (inside the prolog, a licence comment, a start tag
    # with one attribute per line, a CDATA section, ...): the text ends where a parser's "row" points past the last line
    pretty = ('<?xml version="1.0"\n      encoding="UTF-8"?>\n<!--\n  Licence text\n  over several lines\n-->\n<xs:schema\n    xmlns:xs="http://www.w3.org/2001/XMLSchema"\n'
              '    xmlns:t="http://zv.test/a"\n    targetNamespace="http://zv.test/a">\n  <xs:annotation>\n    <xs:documentation><![CDATA[\n      text\n    ]]></xs:documentation>\n'
              '  </xs:annotation>\n  <xs:complexType\n      name="C">\n    <xs:sequence>\n      <xs:element name="a"\n          type="xs:int"/>\n    </xs:sequence>\n  </xs:complexType>\n'
              '  <?pi some\n     thing?>\n</xs:schema>\n')
    cuts = [i + 1 for i, c in enumerate(pretty) if c == "\n"]
    for k, cut in enumerate(cuts):
        out.append((f"cut-after-line-break:{k}", {"a.xsd": pretty[:cut]}, "a.xsd"))
        out.append((f"cut-after-line-break-in-imported-file:{k}", {"a.xsd": schema('<xs:import namespace="http://zv.test/b" schemaLocation="b.xsd"/>'),
                                                                   "b.xsd": pretty[:cut].replace("zv.test/a", "zv.test/b")}, "a.xsd"))
    for tag, text in (("xml-declaration-open", '<?xml version="1.0"\n'), ("comment-open", "<!--x--\n"), ("only-line-breaks", "\n\n\n"), ("crlf-cut", '<a>\r\n<b\r\n'),
                      ("cr-only-cut", "<a>\r<b\r"), ("nel-cut", "<a>\u0085<b\u0085"), ("ls-cut", "<a>\u2028<b\u2028")):
        out.append((f"cut-after-line-break:{tag}", {"a.xsd": text}, "a.xsd"))
    # ---- a long chain of files, each importing the next (no cycle): every file that is read for an import is a level of recursion
    for n in (300, 3000, 40_000):
        files = {f"f{i}.xsd": schema(f'<xs:import namespace="http://zv.test/chain/{i + 1}" schemaLocation="f{i + 1}.xsd"/>'
                                     f'<xs:complexType name="C{i}"><xs:sequence><xs:element name="a" type="xs:int"/></xs:sequence></xs:complexType>',
                                     tns=f"http://zv.test/chain/{i}") for i in range(n)}
        files[f"f{n}.xsd"] = schema('<xs:complexType name="Last"><xs:sequence><xs:element name="a" type="xs:int"/></xs:sequence></xs:complexType>',
                                    tns=f"http://zv.test/chain/{n}")
        out.append((f"import-chain:files={n}", files, "f0.xsd"))
    # ---- thousands of members with one name in one type (each needs a field name of its own)
    for n in (500, 12_000):
        xsd(f"same-named-members:count={n}", '<xs:complexType name="C"><xs:sequence>' + '<xs:element name="x" type="xs:int"/>' * n + "</xs:sequence></xs:complexType>")
        xsd(f"same-named-members-two-spellings:count={n}", '<xs:complexType name="C"><xs:sequence>' + '<xs:element name="x" type="xs:int"/><xs:element name="X" type="xs:int"/>' * (n // 2)
            + "</xs:sequence></xs:complexType>")
    # ---- both limits at once: a chain of forward references (below its limit) whose every link sits inside nested groups
    # (below that limit): the stack has to hold the product
    for links, nesting in ((250, 100), (200, 900)):
        chain = "".join(f'<xs:element name="E{i}"><xs:complexType>' + "<xs:sequence>" * nesting + f'<xs:element ref="t:E{i + 1}" minOccurs="0"/>'
                        + "</xs:sequence>" * nesting + '</xs:complexType></xs:element>' for i in range(links))
        xsd(f"forward-ref-chain-inside-nested-groups:links={links}:nesting={nesting}", chain + f'<xs:element name="E{links}" type="xs:int"/>')
    # ---- long chains of forward references: every type extends (or refers to) the one declared after it
    for depth in (300, 6000):
        chain = "".join(f'<xs:complexType name="T{i}"><xs:complexContent><xs:extension base="t:T{i + 1}"><xs:sequence><xs:element name="e{i}" '
                        f'type="xs:int"/></xs:sequence></xs:extension></xs:complexContent></xs:complexType>' for i in range(depth))
        xsd(f"forward-base-chain:depth={depth}", chain + f'<xs:complexType name="T{depth}"><xs:sequence><xs:element name="last" type="xs:int"/></xs:sequence></xs:complexType>')
        chain = "".join(f'<xs:element name="E{i}"><xs:complexType><xs:sequence><xs:element ref="t:E{i + 1}" minOccurs="0"/></xs:sequence></xs:complexType></xs:element>'
                        for i in range(depth))
        xsd(f"forward-ref-chain:depth={depth}", chain + f'<xs:element name="E{depth}" type="xs:int"/>')
    # ---- root kinds
    out.append(("root-not-schema", {"a.xsd": "<foo><bar/></foo>"}, "a.xsd"))
    out.append(("root-schema-wrong-ns", {"a.xsd": '<schema><complexType name="C"><sequence><element name="a" type="string"/></sequence></complexType></schema>'}, "a.xsd"))
    out.append(("root-definitions-empty", {"a.wsdl": "<definitions/>"}, "a.wsdl"))
    # ---- WSDL sites
    ws("wsdl-no-types", types="")
    ws("wsdl-types-without-schema", types="<wsdl:types/>")
    ws("wsdl-two-schemas", types=GOOD_TYPES.replace("</wsdl:types>", schema('<xs:element name="Other" type="xs:int"/>', tns="http://zv.test/o").split("?>", 1)[1] + "</wsdl:types>"))
    ws("message-without-name", messages=GOOD_MSG.replace('name="In"', ""))
    ws("part-without-name", messages=GOOD_MSG.replace('<wsdl:part name="p" element="t:Req"/>', '<wsdl:part element="t:Req"/>'))
    ws("part-without-element", messages=GOOD_MSG.replace(' element="t:Req"', ""))
    ws("part-with-type", messages=GOOD_MSG.replace(' element="t:Req"', ' type="xs:string"'))
    ws("part-element-dangling", messages=GOOD_MSG.replace("t:Req", "t:Nope"))
    ws("part-element-is-simple-alias", messages=GOOD_MSG.replace("t:Req", "t:Res"))
    ws("message-without-parts", messages='<wsdl:message name="In"/><wsdl:message name="Out"/>')
    ws("messages-after-porttype", messages="", port=GOOD_PORT + GOOD_MSG)
    ws("operation-without-name", port=GOOD_PORT.replace('name="Op"', ""))
    ws("operation-without-input", port=GOOD_PORT.replace('<wsdl:input message="t:In"/>', ""))
    ws("input-without-message", port=GOOD_PORT.replace(' message="t:In"', ""))
    ws("input-message-dangling", port=GOOD_PORT.replace("t:In", "t:Nope"))
    ws("output-message-dangling", port=GOOD_PORT.replace("t:Out", "t:Nope"))
    ws("binding-without-name", binding=GOOD_BIND.replace('name="B"', ""))
    ws("binding-without-type", binding=GOOD_BIND.replace(' type="t:P"', ""))
    ws("binding-type-dangling", binding=GOOD_BIND.replace("t:P", "t:Nope"))
    ws("binding-before-porttype", port="", binding=GOOD_BIND + GOOD_PORT)
    ws("binding-operation-unknown", binding=GOOD_BIND.replace('<wsdl:operation name="Op">', '<wsdl:operation name="Other">'))
    ws("binding-operation-without-name", binding=GOOD_BIND.replace('<wsdl:operation name="Op">', '<wsdl:operation>'))
    ws("binding-without-input", binding=GOOD_BIND.replace('<wsdl:input>', '<wsdl:xinput>').replace('</wsdl:input>', '</wsdl:xinput>'))
    ws("body-missing", binding=GOOD_BIND.replace('<soap:body use="literal" parts="p"/>', ""))
    ws("body-without-use", binding=GOOD_BIND.replace('<soap:body use="literal" parts="p"/>', '<soap:body parts="p"/>'))
    ws("body-use-encoded", binding=GOOD_BIND.replace('use="literal" parts="p"', 'use="encoded" parts="p"'))
    ws("body-parts-dangling", binding=GOOD_BIND.replace('parts="p"', 'parts="zzz"'))
    ws("body-parts-empty", binding=GOOD_BIND.replace('parts="p"', 'parts=""'))
    ws("body-parts-two", binding=GOOD_BIND.replace('parts="p"', 'parts="p h"'))
    ws("header-without-part", binding=GOOD_BIND.replace(' part="h"', ""))
    ws("header-part-dangling", binding=GOOD_BIND.replace('part="h"', 'part="zzz"'))
    ws("header-part-is-alias", messages=GOOD_MSG.replace('<wsdl:part name="h" element="t:Hdr"/>', '<wsdl:part name="h" element="t:Res"/>'))
    ws("header-in-output-without-output-message", binding=GOOD_BIND.replace('<wsdl:output><soap:body use="literal"/>', '<wsdl:output><soap:header message="t:Out" part="q" use="literal"/><soap:body use="literal"/>'))
    ws("output-only-in-binding", port=GOOD_PORT.replace('<wsdl:output message="t:Out"/>', ""))
    ws("output-only-in-binding-with-parts", port=GOOD_PORT.replace('<wsdl:output message="t:Out"/>', ""),
       binding=GOOD_BIND.replace('<wsdl:output><soap:body use="literal"/>', '<wsdl:output><soap:body use="literal" parts="p"/>'))
    ws("output-message-dangling-with-parts", port=GOOD_PORT.replace("t:Out", "t:Nope"),
       binding=GOOD_BIND.replace('<wsdl:output><soap:body use="literal"/>', '<wsdl:output><soap:body use="literal" parts="p"/>'))
    ws("output-header-without-port-output", port=GOOD_PORT.replace('<wsdl:output message="t:Out"/>', ""),
       binding=GOOD_BIND.replace('<wsdl:output><soap:body use="literal"/>', '<wsdl:output><soap:header message="t:Out" part="p" use="literal"/><soap:body use="literal"/>'))
    ws("input-parts-and-output-parts", binding=GOOD_BIND.replace('<wsdl:output><soap:body use="literal"/>', '<wsdl:output><soap:body use="literal" parts="p"/>'))
    ws("output-parts-dangling", binding=GOOD_BIND.replace('<wsdl:output><soap:body use="literal"/>', '<wsdl:output><soap:body use="literal" parts="zzz"/>'))
    ws("body-is-typed-alias-element", messages=GOOD_MSG.replace('<wsdl:part name="p" element="t:Req"/>', '<wsdl:part name="p" element="t:Res"/>'))
    ws("body-element-unsupported-kind", types=GOOD_TYPES.replace('<xs:element name="Res" type="xs:string"/>', '<xs:element name="Res"/>'))
    ws("soapaction-not-a-url", binding=GOOD_BIND.replace("http://zv.test/a", "not a url"))
    ws("soapaction-relative", binding=GOOD_BIND.replace("http://zv.test/a", "/relative/path"))
    ws("soapaction-urn", binding=GOOD_BIND.replace("http://zv.test/a", "urn:op:Op"))
    ws("service-without-name", service=GOOD_SVC.replace('name="S"', ""))
    ws("service-without-port", service='<wsdl:service name="S"/>')
    ws("port-without-binding", service=GOOD_SVC.replace(' binding="t:B"', ""))
    ws("port-binding-dangling", service=GOOD_SVC.replace("t:B", "t:Nope"))
    ws("address-missing", service=GOOD_SVC.replace('<soap:address location="http://127.0.0.1:9/x"/>', ""))
    ws("address-without-location", service=GOOD_SVC.replace(' location="http://127.0.0.1:9/x"', ""))
    ws("address-not-a-url", service=GOOD_SVC.replace("http://127.0.0.1:9/x", "::::"))
    ws("address-empty", service=GOOD_SVC.replace("http://127.0.0.1:9/x", ""))
    ws("service-before-binding", binding="", service=GOOD_SVC + GOOD_BIND)
    ws("two-services-two-bindings", binding=GOOD_BIND + GOOD_BIND.replace('name="B"', 'name="B2"'), service=GOOD_SVC + GOOD_SVC.replace('name="S"', 'name="S2"').replace("t:B", "t:B2"))
    ws("keyword-names", types=GOOD_TYPES.replace('name="Req"', 'name="self"').replace('name="a"', 'name="Self"'),
       messages=GOOD_MSG.replace("t:Req", "t:self"))
    # ---- hostile documentation text at every place where documentation is carried into the output
    from xml.sax.saxutils import escape
    for cls, text in DOC_TEXTS.items():
        d = f"<xs:annotation><xs:documentation>{escape(text)}</xs:documentation></xs:annotation>"
        xsd(f"documentation:{cls}@simple-type", f'<xs:simpleType name="S">{d}<xs:restriction base="xs:string"><xs:maxLength value="3"/></xs:restriction></xs:simpleType>')
        xsd(f"documentation:{cls}@complex-type-attributes-only", f'<xs:complexType name="C">{d}<xs:attribute name="a" type="xs:int"/></xs:complexType>')
        xsd(f"documentation:{cls}@complex-type", f'<xs:complexType name="C">{d}<xs:sequence><xs:element name="a" type="xs:int">{d}</xs:element></xs:sequence><xs:attribute name="b" type="xs:int">{d}</xs:attribute></xs:complexType>')
        xsd(f"documentation:{cls}@element", f'<xs:element name="E">{d}<xs:complexType>{d}<xs:sequence><xs:element name="a" type="xs:int"/></xs:sequence></xs:complexType></xs:element>')
        xsd(f"documentation:{cls}@enumeration", f'<xs:simpleType name="S"><xs:restriction base="xs:string"><xs:enumeration value="A">{d}</xs:enumeration></xs:restriction></xs:simpleType>')
        ws(f"documentation:{cls}@wsdl-operation", port=GOOD_PORT.replace('<wsdl:operation name="Op">', f'<wsdl:operation name="Op"><wsdl:documentation>{escape(text)}</wsdl:documentation>'))
    return out


# documentation texts whose line structure, indentation or characters invite slicing and trimming mistakes
DOC_TEXTS = {
    "nbsp-and-ascii-indent": "first\n   three spaces\n\u00a0\u00a0nbsp indented\n   again",
    "ideographic-space-indent": "a\n\u3000\u3000b\n  c\n\u3000c",
    "tabs-and-spaces": "a\n\t\tb\n    c\n \t d",
    "crlf": "a\r\n  b\r\n  c\r\n",
    "whitespace-only-lines": "a\n   \n\u2003\n\t\n b",
    "emoji": "x\n \U0001F600\U0001F600 y\n  z\U0001F9D1\u200d\U0001F4BB",
    "combining-marks": "e\u0301\n  e\u0301\u0301 q\n \u0301",
    "zero-width": "a\u200b\n \u200bb\n\ufeffc",
    "line-separators": "a\u2028 b\u2029 c\u0085 d\u000b e\u000c f",
    "right-to-left": "a\n \u202eabc\n  \u05d0\u05d1\u202c",
    "very-long-line": "x" * 20000,
    "many-lines": "\n".join(" " + "  " * (i % 7) + f"l{i}" for i in range(3000)),
    "trailing-backslashes": "a\\\n  b\\\n\\",
    "leading-newlines": "\n\n  a\n b\n\n",
    "comment-markers": "*/ /// //! /** #[doc = \"x\"] */",
    "empty": "",
    "single-multibyte": "\u00a0",
}
