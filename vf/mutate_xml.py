"""Structure-aware mutators for XSD/WSDL text (workload generator for C13). minidom keeps prefixes and
attribute spellings, so QName-valued attributes stay meaningful after a mutation."""
import xml.dom.minidom as md

QNAME_ATTRS = ["type", "base", "ref", "element", "message", "binding", "itemType", "memberTypes"]
KEY_ATTRS = ["name", "type", "base", "ref", "value", "element", "message", "part", "parts", "binding", "use", "location",
             "soapAction", "namespace", "schemaLocation", "targetNamespace", "minOccurs", "maxOccurs", "style",
             "elementFormDefault", "transport", "itemType", "memberTypes", "processContents"]
GARBAGE = ["", " ", ":", "a:", ":b", "x:y:z", "0", "-1", "999999999999999999999", "unbounded", "é漢", "self", "Self",
           "crate", "r#type", "a b", "\"", "{}", "xs:string", "xs:nope", "tns:", "#any", "##other", "http://", "urn:x", "\n"]


def _elements(doc):
    out = []

    def walk(n):
        for c in n.childNodes:
            if c.nodeType == c.ELEMENT_NODE:
                out.append(c)
                walk(c)
    walk(doc)
    return out


def _names(els, attr="name"):
    return [e.getAttribute(attr) for e in els if e.hasAttribute(attr)]


def op_delete(doc, r):
    els = _elements(doc)[1:]
    if not els:
        return None
    e = r.choice(els)
    e.parentNode.removeChild(e)
    return "delete:" + e.localName


def op_duplicate(doc, r):
    els = _elements(doc)[1:]
    if not els:
        return None
    e = r.choice(els)
    c = e.cloneNode(True)
    e.parentNode.insertBefore(c, e)
    return "duplicate:" + e.localName


def op_move(doc, r):
    els = _elements(doc)[1:]
    if len(els) < 2:
        return None
    e = r.choice(els)
    t = r.choice(els)
    n = t
    while n is not None:           # never move a node under itself
        if n is e:
            return None
        n = n.parentNode
    e.parentNode.removeChild(e)
    t.appendChild(e)
    return f"move:{e.localName}->{t.localName}"


def op_drop_attr(doc, r):
    cands = [(e, a) for e in _elements(doc) for a in KEY_ATTRS if e.hasAttribute(a)]
    if not cands:
        return None
    e, a = r.choice(cands)
    e.removeAttribute(a)
    return f"drop-attr:{e.localName}@{a}"


def op_alter_attr(doc, r):
    els = _elements(doc)
    cands = [(e, a) for e in els for a in KEY_ATTRS if e.hasAttribute(a)]
    if not cands:
        return None
    e, a = r.choice(cands)
    same = [x.getAttribute(a) for x in els if x.hasAttribute(a)]
    pool = GARBAGE + same[:50]
    e.setAttribute(a, r.choice(pool))
    return f"alter-attr:{e.localName}@{a}"


def op_retarget(doc, r):
    els = _elements(doc)
    cands = [(e, a) for e in els for a in QNAME_ATTRS if e.hasAttribute(a)]
    if not cands:
        return None
    e, a = r.choice(cands)
    old = e.getAttribute(a)
    prefix = old.split(":")[0] + ":" if ":" in old else ""
    names = _names(els)
    mode = r.choice(["dangling", "self", "other", "noprefix", "wrongprefix", "enclosing"])
    if mode == "dangling":
        new = prefix + "NoSuchThing"
    elif mode == "self":
        n = e
        new = None
        while n is not None and n.nodeType == n.ELEMENT_NODE:
            if n.hasAttribute("name"):
                new = prefix + n.getAttribute("name")
                break
            n = n.parentNode
        if new is None:
            new = prefix + "Self"
    elif mode == "enclosing":
        n = e.parentNode
        top = None
        while n is not None and n.nodeType == n.ELEMENT_NODE:
            if n.hasAttribute("name"):
                top = n.getAttribute("name")
            n = n.parentNode
        new = prefix + (top or "Top")
    elif mode == "other":
        new = prefix + (r.choice(names) if names else "X")
    elif mode == "noprefix":
        new = old.split(":")[-1]
    else:
        new = "zz9:" + old.split(":")[-1]
    e.setAttribute(a, new)
    return f"retarget:{e.localName}@{a}:{mode}"


def op_mutual(doc, r):
    """Make two named components refer to each other (ref / base / type cycles)."""
    els = _elements(doc)
    named = [e for e in els if e.hasAttribute("name") and e.localName in ("element", "complexType", "simpleType", "group")]
    refs = [e for e in els if any(e.hasAttribute(a) for a in ("type", "base", "ref"))]
    if len(named) < 2 or len(refs) < 2:
        return None
    a, b = r.sample(named, 2)
    done = 0
    for holder, target in ((a, b), (b, a)):
        inner = [e for e in _sub(holder) if any(e.hasAttribute(x) for x in ("type", "base", "ref"))]
        if inner:
            e = r.choice(inner)
            attr = next(x for x in ("ref", "base", "type") if e.hasAttribute(x))
            old = e.getAttribute(attr)
            prefix = old.split(":")[0] + ":" if ":" in old else ""
            e.setAttribute(attr, prefix + target.getAttribute("name"))
            done += 1
    return "mutual-reference" if done == 2 else None


def _sub(e):
    out = []

    def walk(n):
        for c in n.childNodes:
            if c.nodeType == c.ELEMENT_NODE:
                out.append(c)
                walk(c)
    walk(e)
    return out


def op_prefix(doc, r):
    root = doc.documentElement
    decls = [a for a in list(root.attributes.keys()) if a.startswith("xmlns:")]
    if not decls:
        return None
    a = r.choice(decls)
    mode = r.choice(["drop", "uri", "dup-uri"])
    if mode == "drop":
        root.removeAttribute(a)
    elif mode == "uri":
        root.setAttribute(a, r.choice(["", "http://zv.test/other", "urn:x", root.getAttribute(a) + "/", "http://www.w3.org/2001/XMLSchema"]))
    else:
        root.setAttribute(a + "2", root.getAttribute(a))
    return f"prefix:{mode}"


def op_wrap(doc, r):
    els = [e for e in _elements(doc) if e.localName in ("sequence", "choice", "element", "complexType", "extension", "all")]
    if not els:
        return None
    e = r.choice(els)
    p = (e.prefix + ":") if e.prefix else ""
    w = doc.createElementNS(e.namespaceURI, p + r.choice(["sequence", "choice", "all", "complexContent", "group", "annotation"]))
    depth = r.randrange(1, 4)
    top = w
    for _ in range(depth - 1):
        w2 = doc.createElementNS(e.namespaceURI, p + r.choice(["sequence", "choice"]))
        w.appendChild(w2)
        w = w2
    for c in list(e.childNodes):
        e.removeChild(c)
        w.appendChild(c)
    e.appendChild(top)
    return f"wrap:{e.localName}x{depth}"


def op_occurs(doc, r):
    els = [e for e in _elements(doc) if e.localName in ("element", "sequence", "choice", "any", "group")]
    if not els:
        return None
    e = r.choice(els)
    a = r.choice(["minOccurs", "maxOccurs"])
    e.setAttribute(a, r.choice(["0", "1", "2", "unbounded", "-1", "", "x", "99999999999999999999", "1.5"]))
    return f"occurs:{a}"


def op_splice(doc, r, other_text=None):
    if not other_text:
        return None
    try:
        other = md.parseString(other_text.encode("utf-8"))
    except Exception:
        return None
    src = _elements(other)[1:]
    dst = _elements(doc)
    if not src or not dst:
        return None
    s = r.choice(src)
    t = r.choice(dst)
    t.appendChild(doc.importNode(s, True))
    return f"splice:{s.localName}->{t.localName}"


def op_rename_tag(doc, r):
    els = _elements(doc)[1:]
    if not els:
        return None
    e = r.choice(els)
    p = (e.prefix + ":") if e.prefix else ""
    new = r.choice(["element", "attribute", "complexType", "simpleType", "sequence", "choice", "extension", "restriction",
                    "group", "attributeGroup", "any", "anyAttribute", "list", "union", "simpleContent", "complexContent",
                    "import", "include", "enumeration", "part", "message", "operation", "input", "output", "body", "header",
                    "binding", "port", "service", "portType", "types", "schema", "definitions", "fault", "all", "key"])
    n = doc.createElementNS(e.namespaceURI, p + new)
    for k in list(e.attributes.keys()):
        n.setAttribute(k, e.getAttribute(k))
    for c in list(e.childNodes):
        e.removeChild(c)
        n.appendChild(c)
    e.parentNode.replaceChild(n, e)
    return f"rename-tag:{e.localName}->{new}"


OPS = [op_delete, op_duplicate, op_move, op_drop_attr, op_alter_attr, op_retarget, op_retarget, op_mutual, op_prefix, op_wrap,
       op_occurs, op_rename_tag, op_drop_attr, op_alter_attr]


def mutate(text, r, n_ops=1, other_text=None):
    """Returns (mutated text, [operator labels]) or (None, []) if the text is not parseable XML."""
    try:
        doc = md.parseString(text.encode("utf-8"))
    except Exception:
        return None, []
    labels = []
    tries = 0
    while len(labels) < n_ops and tries < n_ops * 6:
        tries += 1
        op = r.choice(OPS + [op_splice])
        try:
            lab = op(doc, r, other_text) if op is op_splice else op(doc, r)
        except Exception:
            lab = None
        if lab:
            labels.append(lab)
    try:
        out = doc.toxml()
    except Exception:
        return None, []
    return out, labels


def text_level(text, r):
    """Byte/character-level damage (mostly ends in the XML parser; kept as a small share of the workload)."""
    mode = r.choice(["truncate", "insert", "delete-range", "swap-quotes", "not-xml", "empty", "bom", "doctype", "entity"])
    if mode == "truncate":
        return text[: r.randrange(0, max(1, len(text)))], "text:truncate"
    if mode == "insert":
        i = r.randrange(0, len(text) + 1)
        return text[:i] + r.choice(["<", ">", "&", "\"", "</x>", "<!--", "]]>", "\x00", "<a:b/>", "<?pi?>"]) + text[i:], "text:insert"
    if mode == "delete-range":
        i = r.randrange(0, max(1, len(text)))
        return text[:i] + text[i + r.randrange(1, 200):], "text:delete-range"
    if mode == "swap-quotes":
        return text.replace('"', "'", r.randrange(1, 20)), "text:swap-quotes"
    if mode == "not-xml":
        return r.choice(["hello world", "{\"json\": true}", "\x7fELF", "<", "<<>>", "<?xml version='1.0'?>"]), "text:not-xml"
    if mode == "empty":
        return "", "text:empty"
    if mode == "bom":
        return "﻿" + text, "text:bom"
    if mode == "doctype":
        return '<!DOCTYPE x [<!ENTITY a "aaaaaaaaaa"><!ENTITY b "&a;&a;&a;&a;&a;&a;&a;&a;">]>' + text.split("?>", 1)[-1], "text:doctype"
    return text.replace("name=\"", "name=\"&amp;&#x41;", 3), "text:entity"
