"""Run-time driver for generated SOAP clients: a scripted loopback HTTP listener inside the driver binary, request
envelopes built from abstract samples, and a scenario table per operation (C05, C07, C16, C18)."""
import base64
import socket

from . import driver, instance, refmap, sample
from .driver import rust_str
from .instance import Node

SOAPENV = "http://schemas.xmlsoap.org/soap/envelope/"

LISTENER = r'''
use std::io::{Read as _R2, Write as _W2};
use std::sync::{Arc, Mutex, atomic::{AtomicUsize, AtomicBool, Ordering}};

#[derive(Clone, Default)]
struct Script { status: u16, body: String, mode: u8 }   // mode 0 normal, 1 close before headers, 2 close after headers, 3 truncated body, 4 chunked, 5 pieces cut inside characters
struct Shared { script: Mutex<Script>, log: Mutex<Vec<String>>, accepts: AtomicUsize, stop: AtomicBool }

fn b64(data: &[u8]) -> String {
    const T: &[u8; 64] = b"ABCDEFGHIJKLMNOPQRSTUVWXYZabcdefghijklmnopqrstuvwxyz0123456789+/";
    let mut o = String::new();
    for c in data.chunks(3) {
        let n = (c[0] as u32) << 16 | (*c.get(1).unwrap_or(&0) as u32) << 8 | *c.get(2).unwrap_or(&0) as u32;
        o.push(T[(n >> 18 & 63) as usize] as char);
        o.push(T[(n >> 12 & 63) as usize] as char);
        o.push(if c.len() > 1 { T[(n >> 6 & 63) as usize] as char } else { '=' });
        o.push(if c.len() > 2 { T[(n & 63) as usize] as char } else { '=' });
    }
    o
}

fn handle(mut s: std::net::TcpStream, sh: &Shared) {
    let script = sh.script.lock().unwrap().clone();
    if script.mode == 1 { return; }
    let _ = s.set_read_timeout(Some(std::time::Duration::from_secs(5)));
    let mut buf: Vec<u8> = Vec::new();
    let mut tmp = [0u8; 4096];
    let mut head_end = None;
    while head_end.is_none() {
        match s.read(&mut tmp) { Ok(0) | Err(_) => break, Ok(n) => buf.extend_from_slice(&tmp[..n]) }
        head_end = buf.windows(4).position(|w| w == b"\r\n\r\n");
    }
    let Some(he) = head_end else { return; };
    let head = String::from_utf8_lossy(&buf[..he]).to_string();
    let mut lines = head.split("\r\n");
    let request_line = lines.next().unwrap_or("").to_string();
    let mut clen = 0usize; let mut auth = String::new(); let mut ctype = String::new(); let mut host = String::new(); let mut action = String::new();
    for l in lines {
        if let Some((k, v)) = l.split_once(':') {
            let k = k.trim().to_ascii_lowercase(); let v = v.trim();
            match k.as_str() { "content-length" => clen = v.parse().unwrap_or(0), "authorization" => auth = v.to_string(),
                "content-type" => ctype = v.to_string(), "host" => host = v.to_string(), "soapaction" => action = v.to_string(), _ => {} }
        }
    }
    let mut body = buf[he + 4..].to_vec();
    while body.len() < clen {
        match s.read(&mut tmp) { Ok(0) | Err(_) => break, Ok(n) => body.extend_from_slice(&tmp[..n]) }
    }
    // record the request before replying
    sh.log.lock().unwrap().push(format!("{{\"request_line\":{},\"authorization\":{},\"content_type\":{},\"host\":{},\"soapaction\":{},\"body\":{}}}",
        js(&request_line), js(&auth), js(&ctype), js(&host), js(&action), js(&String::from_utf8_lossy(&body))));
    if script.mode == 2 { return; }
    let reason = match script.status { 200 => "OK", 201 => "Created", 204 => "No Content", 400 => "Bad Request", 401 => "Unauthorized",
        403 => "Forbidden", 404 => "Not Found", 500 => "Internal Server Error", 503 => "Service Unavailable", _ => "Status" };
    let b = script.body.as_bytes();
    if script.mode == 4 {
        // the same reply with chunked transfer coding, in three chunks
        let head = format!("HTTP/1.1 {} {}\r\nContent-Type: text/xml; charset=utf-8\r\nTransfer-Encoding: chunked\r\nConnection: close\r\n\r\n", script.status, reason);
        let _ = s.write_all(head.as_bytes());
        let n = b.len();
        let cuts = [0, n / 3, 2 * n / 3, n];
        for w in cuts.windows(2) {
            let part = &b[w[0]..w[1]];
            if part.is_empty() { continue; }
            let _ = s.write_all(format!("{:x}\r\n", part.len()).as_bytes());
            let _ = s.write_all(part);
            let _ = s.write_all(b"\r\n");
            let _ = s.flush();
        }
        let _ = s.write_all(b"0\r\n\r\n");
        let _ = s.flush();
        return;
    }
    if script.mode == 5 {
        // the same reply, its body sent in pieces that end inside multi-byte characters (a flush and a pause after each piece)
        let head = format!("HTTP/1.1 {} {}\r\nContent-Type: text/xml; charset=utf-8\r\nContent-Length: {}\r\nConnection: close\r\n\r\n", script.status, reason, b.len());
        let _ = s.set_nodelay(true);
        let _ = s.write_all(head.as_bytes());
        let _ = s.flush();
        let mut cuts: Vec<usize> = (1..b.len()).filter(|i| b[*i] & 0xC0 == 0x80).collect();
        cuts.dedup_by(|a, c| *a - *c < 2);
        cuts.truncate(4);
        let mut from = 0;
        for c in cuts.into_iter().chain(std::iter::once(b.len())) {
            let _ = s.write_all(&b[from..c]);
            let _ = s.flush();
            std::thread::sleep(std::time::Duration::from_millis(25));
            from = c;
        }
        return;
    }
    let declared = if script.mode == 3 { b.len() + 64 } else { b.len() };
    let head = format!("HTTP/1.1 {} {}\r\nContent-Type: text/xml; charset=utf-8\r\nContent-Length: {}\r\nConnection: close\r\n\r\n", script.status, reason, declared);
    let _ = s.write_all(head.as_bytes());
    if script.status != 204 { let _ = s.write_all(b); }
    let _ = s.flush();
}

fn start_listener(port: u16) -> Option<Arc<Shared>> {
    let l = std::net::TcpListener::bind(("127.0.0.1", port)).ok()?;
    let sh = Arc::new(Shared { script: Mutex::new(Script::default()), log: Mutex::new(Vec::new()), accepts: AtomicUsize::new(0), stop: AtomicBool::new(false) });
    let sh2 = sh.clone();
    std::thread::spawn(move || {
        for c in l.incoming() {
            if sh2.stop.load(Ordering::SeqCst) { break; }
            if let Ok(s) = c {
                sh2.accepts.fetch_add(1, Ordering::SeqCst);
                let sh3 = sh2.clone();
                std::thread::spawn(move || handle(s, &sh3));
            }
        }
        // listener dropped here: the port is closed from now on
    });
    Some(sh)
}

fn set_script(sh: &Shared, status: u16, body: &str, mode: u8) {
    *sh.script.lock().unwrap() = Script { status, body: body.to_string(), mode };
    sh.log.lock().unwrap().clear();
    sh.accepts.store(0, Ordering::SeqCst);
}

fn report(sh: &Shared, scenario: &str, op: &str, outcome: String) {
    // give handler threads a moment to finish logging (they log before replying, so this is only for mode 2/3 races)
    std::thread::sleep(std::time::Duration::from_millis(2));
    let reqs = sh.log.lock().unwrap().join(",");
    emit(format!("{{\"ev\":\"call\",\"scenario\":{},\"op\":{},\"accepts\":{},\"requests\":[{}],{}}}", js(scenario), js(op),
        sh.accepts.load(Ordering::SeqCst), reqs, outcome));
}

fn err_kind(e: &g::error::SoapError) -> &'static str {
    match e { g::error::SoapError::YaserdeError(_) => "Yaserde", g::error::SoapError::Http(_) => "Http", g::error::SoapError::Restriction(_) => "Restriction" }
}
fn assert_send<T: Send>(_: &T) {}
fn assert_send_sync<T: Send + Sync>() {}
'''


_ports_given = set()


def free_port():
    """A loopback port below the ephemeral range (so that no client socket of a neighbouring driver can take it between
    this probe and the driver's bind), not handed out before in this process."""
    import random
    rnd = random.Random()
    for _ in range(200):
        port = rnd.randrange(20000, 32000)
        if port in _ports_given:
            continue
        s = socket.socket()
        try:
            s.bind(("127.0.0.1", port))
        except OSError:
            continue
        finally:
            s.close()
        _ports_given.add(port)
        return port
    s = socket.socket()
    s.bind(("127.0.0.1", 0))
    port = s.getsockname()[1]
    s.close()
    return port


class ElementValues:
    """Sample values, literals and expected infosets for global elements (message parts)."""

    def __init__(self, p, r):
        self.p = p
        self.ss = p.ss
        self.sampler = sample.Sampler(r, plain_text=True)
        self.glit = driver.GLit(p)

    def value(self, g_el, mode="rand"):
        if g_el.anonymous:
            return self.sampler.complex(g_el, mode)
        return self.sampler.leaf({"kind": "element", "type": g_el.type}, mode)

    def literal(self, g_el, v):
        return self.glit.literal(v)

    def tree(self, g_el, v):
        uri = self.ss.files[g_el.file].uri
        if v[0] == "c":
            return instance.expected_tree(self.ss, v, (uri, g_el.name.xml))
        text, b = instance.leaf_text(v)
        return Node(uri, g_el.name.xml, [], None, text, b)


def envelope_tree(body, headers):
    kids = []
    if headers:
        kids.append(Node(SOAPENV, "Header", [], list(headers)))
    kids.append(Node(SOAPENV, "Body", [], [body]))
    return Node(SOAPENV, "Envelope", [], kids)


def find_struct(p, name, module=""):
    hits = [s for s in p.shape["structs"] if s["name"] == name and s["module"] == module]
    return hits[0] if len(hits) == 1 else None


def acceptable_types(p, g_el):
    """Type spellings (as rsdump normalises them, relative to the file root) that denote the element g_el."""
    from .model import BUILTINS
    out = set()

    def struct_paths(comp):
        e = p.by_comp.get(id(comp))
        for s in (p.located.get(id(e), []) if e is not None else []):
            out.add((s["module"] + "::" if s["module"] else "") + s["name"])

    if g_el.anonymous:
        struct_paths(g_el)
    else:
        if g_el.type.builtin:
            out.add(BUILTINS[g_el.type.name])
        else:
            struct_paths(g_el.type.comp)
        # the alias `pub type <Element> = <Type>` in the element's module
        for a in p.shape["aliases"]:
            if refmap.norm_ident(a["name"]) == g_el.name.pascal:
                out.add((a["module"] + "::" if a["module"] else "") + a["name"])
    return out


def _inner(ty):
    ty = ty.replace(" ", "")
    for w in ("Option<", "Vec<"):
        if ty.startswith(w) and ty.endswith(">"):
            return ty[len(w):-1]
    return ty


def envelope_literal(p, env_name, body_lit, header_lits, body_el=None, header_els=None):
    """Literal of an envelope type discovered from a method signature; None + reason when the shape does not fit."""
    env = find_struct(p, env_name)
    if env is None:
        return None, f"envelope struct {env_name} not found"
    fields = {f["name"]: f for f in env["fields"]}
    parts = []
    if header_lits:
        hf = fields.get("header")
        if hf is None:
            return None, "envelope has no header member although headers are bound"
        hs = find_struct(p, hf["type"])
        if hs is None or len(hs["fields"]) != len(header_lits):
            return None, f"header struct has {len(hs['fields']) if hs else '?'} members for {len(header_lits)} bound header parts"
        for k, (f, el) in enumerate(zip(hs["fields"], header_els or [])):
            if _inner(f["type"]) not in acceptable_types(p, el):
                return None, f"header member {k} has another element's type"
        inner = ", ".join(f"{f['name']}: Some({lit})" for f, lit in zip(hs["fields"], header_lits))
        parts.append(f"header: g::{hs['name']} {{ {inner} }}")
    elif "header" in fields:
        return None, "envelope has a header member although no header is bound"
    bf = fields.get("body")
    if bf is None:
        return None, "envelope has no body member"
    bs = find_struct(p, bf["type"])
    if bs is None or len(bs["fields"]) != 1:
        return None, "body struct does not have exactly one member"
    if body_el is not None and _inner(bs["fields"][0]["type"]) not in acceptable_types(p, body_el):
        return None, "body member has another element's type"
    parts.append(f"body: g::{bs['name']} {{ {bs['fields'][0]['name']}: {body_lit} }}")
    return f"g::{env_name} {{ {', '.join(parts)} }}", None


def basic(user, pw):
    return "Basic " + base64.b64encode(f"{user}:{pw}".encode()).decode()
