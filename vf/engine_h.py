"""Engine H: the helper source compiled unmodified by path into tools/hharness (C06, C19)."""
import json
import subprocess

from . import common
from .common import Verdict, Inconclusive


def _run_harness(args, timeout):
    exe = common.build_tool("hharness")
    try:
        p = common.run([exe] + args, timeout=timeout)
    except subprocess.TimeoutExpired:
        raise Inconclusive("hharness exceeded its wall-clock watchdog")
    if p.returncode != 0:
        raise Inconclusive(f"hharness exited {p.returncode}: {p.stderr.decode(errors='replace')[-800:]}")
    viol, summary = [], None
    for line in p.stdout.decode(errors="replace").splitlines():
        try:
            o = json.loads(line)
        except json.JSONDecodeError:
            continue
        if "v" in o:
            viol.append(o["v"])
        elif "summary" in o:
            summary = o["summary"]
    if summary is None:
        raise Inconclusive("hharness printed no summary")
    return viol, summary


def c06(tier):
    v = Verdict("C06", tier, "exploration")
    viol, s = _run_harness(["c06"] + (["wide"] if tier == "thorough" else []), 1200)
    for x in viol:
        v.violation(x["signature"], {"witness": x.get("witness"), "count": x.get("count")})
        v.records[x["signature"]]["count"] = x.get("count", 1)
    cov = {
        "evaluations": s["evaluations"],
        # distinct non-trivial = (carrier class) cells that were exercised with at least one facet set
        "distinct_nontrivial": len(s["per_class"]) + s["numeric_restriction_sets"] + s["string_restriction_sets"],
        "rule": "complete enumeration of the bounded domain of DESIGN §5 C06: every numeric facet ∈ {absent} ∪ B "
                "(B = i32 extremes, -2..2, 7; thorough adds ±100 and extremes∓1), values = carrier extremes, 0, b-1/b/b+1 and "
                "values outside the i32 range, for each of i8..u64 bare and inside Option/Vec; all strings over "
                "{a,é,漢,7,-,space} up to length 4 (5 in thorough) × length/minLength/maxLength ∈ {absent,0..4}³ × 5 enumerations; "
                "numeric text × every numeric facet set. distinct_nontrivial counts carrier classes + distinct restriction sets "
                "used (each is paired with every value of its class); accepted/rejected show both outcomes were observed",
        "exhaustive": True,
        "accepted": s["accepted"], "rejected": s["rejected"],
        "numeric_restriction_sets": s["numeric_restriction_sets"],
        "string_restriction_sets": s["string_restriction_sets"],
        "strings": s["strings"], "numeric_texts": s["numeric_texts"],
        "per_class": s["per_class"], "excluded": s.get("excluded", {}),
        "samples": [
            {"carrier": "i32", "value": 7, "restrictions": {"minInclusive": 7}, "reference": "accept"},
            {"carrier": "u64", "value": "18446744073709551615", "restrictions": None, "reference": "accept"},
            {"carrier": "String", "value": "é漢", "restrictions": {"length": 2}, "reference": "accept (2 characters, 5 bytes)"},
            {"carrier": "String", "value": "2147483648", "restrictions": {"minInclusive": 0}, "reference": "accept (numeric text beyond i32)"},
        ],
    }
    if s["accepted"] == 0 or s["rejected"] == 0:
        v.inconclusive = "the workload observed only one outcome class"
    v.finish(cov, assumptions=[
        "helper source is /repo/zeep-lib/src/model/helpers_content.rs included by #[path], unmodified",
        "reference predicate: XSD facet semantics with i128 arithmetic and character counts (tools/hharness/src/c06.rs)",
        "numeric text = XSD integer lexical form [+-]?[0-9]+; whitespace-padded numerals are excluded (counted)",
    ], min_evaluations=100000)


def c19(tier):
    v = Verdict("C19", tier, "exploration")
    viol, s = _run_harness(["c19"], 600)
    for x in viol:
        v.violation(x["signature"], {"witness": x.get("witness"), "count": x.get("count")})
        v.records[x["signature"]]["count"] = x.get("count", 1)
    cov = {
        "evaluations": s["comparisons"],
        "distinct_nontrivial": s["values"],
        "rule": "every value of the enumerated probe domains (text-only, restricted leaf, attributes-only, attributes+children, "
                "nested two levels with a foreign-namespace member, optional+repeated, self-referential list depth 0-3), "
                "each compared bare vs. MultiRef-wrapped at the root and as item/Option/Vec member of a holder: "
                "serialization text, deserialization result (Debug and PartialEq through Deref), Debug, Default, "
                "check_restrictions under 4 restriction sets, Arc::ptr_eq/strong_count after clone. "
                "distinct_nontrivial = distinct probe values; evaluations = individual bare-vs-wrapped comparisons",
        "exhaustive": True,
        "values": s["values"], "per_probe": s["per_probe"], "per_check": s["per_check"],
        "both_failed_in_yaserde": s["both_failed"],
        "samples": s["samples"][:10],
        "not_exercised": "deserialization of the self-referential shape: yaserde 0.12 loops on a child element named like a "
                         "member of the child struct, for bare structs as well",
    }
    v.finish(cov, assumptions=[
        "helper source is /repo/zeep-lib/src/model/helpers_content.rs included by #[path], unmodified",
        "yaserde/yaserde_derive 0.12.0 and xml-rs at the versions of /repo/Cargo.lock",
    ], min_evaluations=1000)
