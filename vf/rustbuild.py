"""rustc plumbing for engine G: the dependency set the README documents for generated code (hostdeps) and
direct rustc invocations (metadata-only checks, driver binaries) against exactly that set."""
import json
import os
import subprocess

from . import common
from .common import Inconclusive

_host = None
DOCUMENTED = ["yaserde", "yaserde_derive", "xml", "log", "reqwest", "tokio"]


def host():
    """{'externs': [...rustc args...], 'link': [...]} for the six documented crates at /repo/Cargo.lock versions."""
    global _host
    if _host is not None:
        return _host
    lock = os.path.join(common.TOOLS, "Cargo.lock")
    if not os.path.exists(lock):
        import shutil
        shutil.copy(os.path.join(common.REPO, "Cargo.lock"), lock)
    p = common.run(["cargo", "build", "-p", "hostdeps", "--target-dir", common.TARGET, "--message-format=json"],
                   cwd=common.TOOLS, timeout=1500)
    if p.returncode != 0:
        raise Inconclusive("hostdeps build failed: " + p.stderr.decode(errors="replace")[-800:])
    arts, links = {}, []
    for line in p.stdout.decode(errors="replace").splitlines():
        try:
            m = json.loads(line)
        except json.JSONDecodeError:
            continue
        if m.get("reason") == "compiler-artifact":
            arts[m["target"]["name"]] = m["filenames"]
        elif m.get("reason") == "build-script-executed":
            links += m.get("linked_paths", [])
    externs = []
    for name in DOCUMENTED:
        fn = arts.get(name)
        if not fn:
            raise Inconclusive(f"hostdeps artifact for {name} not found")
        lib = [f for f in fn if f.endswith((".rlib", ".so"))][0]
        externs += ["--extern", f"{name}={lib}"]
    deps = os.path.join(common.TARGET, "debug", "deps")
    _host = {"externs": externs + ["-L", f"dependency={deps}"], "link": sum((["-L", lp] for lp in links), [])}
    return _host


def rustc(args, cwd, timeout=300):
    try:
        p = subprocess.run(["rustc"] + args, cwd=cwd, stdout=subprocess.PIPE, stderr=subprocess.PIPE, timeout=timeout,
                           env=common.ENV)
    except subprocess.TimeoutExpired:
        return None, []
    diags = []
    for line in p.stderr.decode(errors="replace").splitlines():
        try:
            d = json.loads(line)
        except json.JSONDecodeError:
            continue
        if d.get("message", "").startswith("aborting due to"):
            continue
        if d.get("level") == "error" or (d.get("level", "").startswith("error")):
            spans = [s for s in d.get("spans", []) if s.get("is_primary")] or d.get("spans", [])
            sp = spans[0] if spans else {}
            diags.append({"code": (d.get("code") or {}).get("code"), "message": d.get("message", ""),
                          "file": sp.get("file_name"), "line": sp.get("line_start"), "col": sp.get("column_start"),
                          "text": (sp.get("text") or [{}])[0].get("text", "")[:200] if sp.get("text") else "",
                          "children": [c.get("message", "") for c in d.get("children", [])][:4]})
    return p.returncode, diags


def check_lib(src, workdir, name="host"):
    """Metadata-only compile of `src` as a library against the documented dependency set only."""
    h = host()
    out = os.path.join(workdir, f"lib{name}.rmeta")
    return rustc(["--edition", "2024", "--crate-type", "lib", "--crate-name", name, "--emit=metadata", "-o", out,
                  "--error-format=json", "-A", "warnings", src] + h["externs"], workdir)
    # (-A warnings, not --cap-lints allow: lints that are deny-by-default, e.g. overflowing_literals, stop a user's build as
    # well and must stop this one)


def build_bin(src, workdir, name="drv"):
    h = host()
    out = os.path.join(workdir, name)
    rc, diags = rustc(["--edition", "2024", "--crate-type", "bin", "--crate-name", name, "-C", "debuginfo=0", "-C", "opt-level=0",
                       "-o", out, "--error-format=json", "--cap-lints", "allow", src] + h["externs"] + h["link"], workdir, timeout=600)
    return rc, diags, out
