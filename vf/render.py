"""Model → XSD / WSDL text."""
from xml.sax.saxutils import escape, quoteattr

from .model import Group, XSD_NS

WSDL_NS = "http://schemas.xmlsoap.org/wsdl/"
SOAP_NS = "http://schemas.xmlsoap.org/wsdl/soap/"


def qname(f, ref):
    """QName text for a TypeRef as written in file f."""
    if ref.builtin:
        return f"{f.xs_prefix}:{ref.name}"
    if ref.file not in f.prefixes:
        raise KeyError(f"file {f.idx} has no prefix for file {ref.file}")
    if f.prefixes[ref.file] == "":
        return ref.name
    return f"{f.prefixes[ref.file]}:{ref.name}"


def _foreign_prefixes_used(f, comp, files):
    """prefix → uri for foreign namespaces referenced inside comp (for nested xmlns placement)."""
    used = {}

    def note(ref):
        if ref is not None and not ref.builtin and ref.file != f.idx:
            used[f.prefixes[ref.file]] = files[ref.file].uri

    def walk_content(c):
        if c is None:
            return
        if c.group is not None:
            walk_group(c.group)
        for a in c.attrs:
            note(a.type)

    def walk_group(g):
        for it in g.items:
            if isinstance(it, Group):
                walk_group(it)
            elif it.kind == "ref":
                note(it.ref)
            else:
                note(it.type)

    if comp.kind == "simple":
        note(comp.base)
    elif comp.kind == "complex":
        note(comp.base)
        walk_content(comp.content)
    else:
        note(comp.type)
        note(comp.base)
        walk_content(comp.content)
    return used


def facet_lexical(v, style):
    """XSD integer lexical variants: all denote the same number."""
    if not isinstance(v, int):
        return str(v)
    if style == "plus" and v >= 0:
        return f"+{v}"
    if style == "padded":
        return f" {v} "
    if style == "zeros":
        return ("-" if v < 0 else "") + "00" + str(abs(v))
    return str(v)


def occurs_attrs(mn, mx, explicit=False):
    s = ""
    if mn != 1 or explicit:
        s += f' minOccurs="{mn}"'
    if mx != 1 or explicit:
        s += f' maxOccurs="{mx}"'
    return s


def _member_qname(f, it, ref):
    """QName of a member's type / ref. A member may bind a prefix of its own on its own start tag (`own_prefix` = (prefix, uri),
    the way .NET writes schemas: <element name="x" type="q1:T" xmlns:q1="…"/>)."""
    own = getattr(it, "own_prefix", None)
    if own is None or ref.builtin:
        return qname(f, ref), ""
    return f"{own[0]}:{ref.name}", f" xmlns:{own[0]}={quoteattr(own[1])}"


def render_group(f, g, ind):
    x = f.xs_prefix
    out = [f'{ind}<{x}:{g.kind}{occurs_attrs(g.min, g.max, getattr(g, "explicit", False))}>']
    for it in g.items:
        if isinstance(it, Group):
            out += render_group(f, it, ind + "  ")
        elif it.kind == "ref":
            qn, decl = _member_qname(f, it, it.ref)
            out.append(f'{ind}  <{x}:element ref={quoteattr(qn)}{occurs_attrs(it.min, it.max, getattr(it, "explicit", False))}{decl}/>')
        else:
            dflt = f' default={quoteattr(it.default)}' if getattr(it, "default", None) is not None else ""
            qn, decl = _member_qname(f, it, it.type)
            out.append(f'{ind}  <{x}:element name={quoteattr(it.name.xml)} type={quoteattr(qn)}{occurs_attrs(it.min, it.max, getattr(it, "explicit", False))}{dflt}{decl}/>')
    out.append(f'{ind}</{x}:{g.kind}>')
    return out


def render_content(f, content, base, ind):
    x = f.xs_prefix
    out = []
    inner_ind = ind
    if base is not None:
        out.append(f'{ind}<{x}:complexContent>')
        out.append(f'{ind}  <{x}:extension base={quoteattr(qname(f, base))}>')
        inner_ind = ind + "    "
    if content is not None:
        if content.group is not None:
            out += render_group(f, content.group, inner_ind)
        for a in content.attrs:
            use = ' use="required"' if a.required else (' use="optional"' if getattr(a, "explicit", False) else "")
            if getattr(a, "default", None) is not None and not a.required:
                use += f' default={quoteattr(a.default)}'
            out.append(f'{inner_ind}<{x}:attribute name={quoteattr(a.name.xml)} type={quoteattr(qname(f, a.type))}{use}/>')
    if base is not None:
        out.append(f'{ind}  </{x}:extension>')
        out.append(f'{ind}</{x}:complexContent>')
    return out


def render_doc(f, doc, ind):
    if doc is None:
        return []
    x = f.xs_prefix
    text = escape(doc).replace("\r", "&#13;")
    return [f'{ind}<{x}:annotation><{x}:documentation>{text}</{x}:documentation></{x}:annotation>']


def render_component(f, c, files, ind="  "):
    x = f.xs_prefix
    extra = ""
    ov = getattr(c, "prefix_override", None)
    if ov:
        # this component binds a prefix of the schema element anew, for itself: references to files[bind] inside it go through it
        import copy
        f = copy.copy(f)
        f.prefixes = {k: p for k, p in f.prefixes.items() if k != ov["hides"]}
        f.prefixes[ov["bind"]] = ov["as"]
        extra += f' xmlns:{ov["as"]}={quoteattr(files[ov["bind"]].uri)}' 
    if f.nested_xmlns:
        for p, uri in sorted(_foreign_prefixes_used(f, c, files).items()):
            extra += f' xmlns:{p}={quoteattr(uri)}'
    out = []
    if c.kind == "simple":
        out.append(f'{ind}<{x}:simpleType name={quoteattr(c.name.xml)}{extra}>')
        out += render_doc(f, c.doc, ind + "  ")
        out.append(f'{ind}  <{x}:restriction base={quoteattr(qname(f, c.base))}>')
        for k, v in c.facets.items():
            out.append(f'{ind}    <{x}:{k} value={quoteattr(facet_lexical(v, getattr(c, "lexical_style", "plain")))}/>')
        for e in c.facets.enumeration or []:
            out.append(f'{ind}    <{x}:enumeration value={quoteattr(e)}/>')
        for k, v in getattr(c.facets, "unchecked", None) or []:
            out.append(f'{ind}    <{x}:{k} value={quoteattr(v)}/>')
        out.append(f'{ind}  </{x}:restriction>')
        out.append(f'{ind}</{x}:simpleType>')
    elif c.kind == "complex":
        out.append(f'{ind}<{x}:complexType name={quoteattr(c.name.xml)}{extra}>')
        out += render_doc(f, c.doc, ind + "  ")
        out += render_content(f, c.content, c.base, ind + "  ")
        out.append(f'{ind}</{x}:complexType>')
    else:
        if c.type is not None:
            out.append(f'{ind}<{x}:element name={quoteattr(c.name.xml)} type={quoteattr(qname(f, c.type))}{extra}/>')
        else:
            # the prefixes a component declares for itself sit on the element or, for every other anonymous-typed element, on
            # the complexType inside it (in scope for everything that uses them either way)
            import zlib
            inner = bool(extra) and getattr(c, "xmlns_inner", zlib.crc32(c.name.xml.encode()) % 2 == 0)
            out.append(f'{ind}<{x}:element name={quoteattr(c.name.xml)}{"" if inner else extra}>')
            out.append(f'{ind}  <{x}:complexType{extra if inner else ""}>')
            out += render_doc(f, c.doc, ind + "    ")
            out += render_content(f, c.content, c.base, ind + "    ")
            out.append(f'{ind}  </{x}:complexType>')
            out.append(f'{ind}</{x}:element>')
    return out


def schema_open(f, files, extra_decls=None):
    x = f.xs_prefix
    s = f'<{x}:schema xmlns:{x}="{XSD_NS}"'
    if f.uri is not None:
        s += f' targetNamespace={quoteattr(f.uri)}'
    s += ' elementFormDefault="qualified"'
    declared = set()
    for k, p in sorted(f.prefixes.items(), key=lambda kv: kv[1]):
        uri = files[k].uri
        if uri is None or (p, uri) in declared:
            continue                # (two files of one namespace share their prefix)
        declared.add((p, uri))
        if p == "":
            s += f' xmlns={quoteattr(uri)}'
            continue
        if f.nested_xmlns and k != f.idx:
            continue
        s += f' xmlns:{p}={quoteattr(uri)}'
    for p, uri in (extra_decls or {}).items():
        s += f' xmlns:{p}={quoteattr(uri)}'
    return s + ">"


def render_schema_body(f, files, ind="  ", inline=False):
    x = f.xs_prefix
    out = []
    for j in f.imports:
        if inline:
            # the imported schema sits in the same <wsdl:types>: no schemaLocation
            out.append(f'{ind}<{x}:import namespace={quoteattr(files[j].uri)}/>')
            continue
        out.append(f'{ind}<{x}:import namespace={quoteattr(files[j].uri)} schemaLocation={quoteattr(files[j].filename)}/>')
    for c in f.components:
        out += render_component(f, c, files, ind)
    return out


def render_xsd(f, files):
    out = ['<?xml version="1.0" encoding="UTF-8"?>', schema_open(f, files)]
    out += render_schema_body(f, files)
    out.append(f'</{f.xs_prefix}:schema>')
    return "\n".join(out) + "\n"


def render_wsdl(ss):
    w = ss.wsdl
    f0 = ss.files[0]
    files = ss.files
    tns = f0.prefixes[0]
    own_wsdl_ns = w.uri != f0.uri
    share = own_wsdl_ns and getattr(w, "share_prefix", False)
    elem_prefix = None
    if share:
        # same prefix as the inline schema uses for itself, but bound to the WSDL's namespace up here; element= references
        # of the parts go through another prefix
        tns = f0.prefixes[0]
        elem_prefix = next(p for p in ("el", "sch", "typesns", "xsdns") if p not in f0.prefixes.values() and p != f0.xs_prefix)
    elif own_wsdl_ns:
        tns = next(p for p in ("wsd", "wns", "defs", "svcns") if p not in f0.prefixes.values() and p != f0.xs_prefix)
    out = ['<?xml version="1.0" encoding="UTF-8"?>']
    decl = f'<wsdl:definitions xmlns:wsdl="{WSDL_NS}" xmlns:soap="{SOAP_NS}" xmlns:{f0.xs_prefix}="{XSD_NS}" targetNamespace={quoteattr(w.uri)}'
    for k, p in sorted(f0.prefixes.items(), key=lambda kv: kv[1]):
        decl += f' xmlns:{elem_prefix if share and k == 0 else p}={quoteattr(files[k].uri)}'
    if own_wsdl_ns:
        decl += f' xmlns:{tns}={quoteattr(w.uri)}'
    decl += f' name={quoteattr(w.service.xml)}>'
    out.append(decl)
    out.append('  <wsdl:types>')
    inline_all = getattr(ss, "inline_all", False)
    order = getattr(ss, "inline_order", None) or [0]
    for k in (order if inline_all else [0]):
        fk = files[k]
        if k == 0:
            out.append('    ' + schema_open(f0, files).replace(f' xmlns:{f0.xs_prefix}="{XSD_NS}"', ""))
        else:
            out.append('    ' + schema_open(fk, files))
        out += render_schema_body(fk, files, "      ", inline=inline_all)
        out.append(f'    </{fk.xs_prefix}:schema>')
    out.append('  </wsdl:types>')
    for op in w.operations:
        for m in (op.input, op.output):
            if m is None:
                continue
            out.append(f'  <wsdl:message name={quoteattr(m.name.xml)}>')
            for p in m.parts:
                ref = f"{elem_prefix}:{p.element.name}" if share and p.element.file == 0 else qname(f0, p.element)
                out.append(f'    <wsdl:part name={quoteattr(p.name.xml)} element={quoteattr(ref)}/>')
            out.append('  </wsdl:message>')
    out.append(f'  <wsdl:portType name={quoteattr(w.port_type.xml)}>')
    for op in w.operations:
        out.append(f'    <wsdl:operation name={quoteattr(op.name.xml)}>')
        out.append(f'      <wsdl:input message={quoteattr(tns + ":" + op.input.name.xml)}/>')
        if op.output is not None:
            out.append(f'      <wsdl:output message={quoteattr(tns + ":" + op.output.name.xml)}/>')
        out.append('    </wsdl:operation>')
    out.append('  </wsdl:portType>')
    out.append(f'  <wsdl:binding name={quoteattr(w.binding.xml)} type={quoteattr(tns + ":" + w.port_type.xml)}>')
    out.append('    <soap:binding style="document" transport="http://schemas.xmlsoap.org/soap/http"/>')
    for op in w.operations:
        out.append(f'    <wsdl:operation name={quoteattr(op.name.xml)}>')
        out.append(f'      <soap:operation soapAction={quoteattr(op.soap_action)}/>')
        for tag, m, headers, body, parts_attr in (("input", op.input, op.in_headers, op.in_body, op.in_parts_attr),
                                                  ("output", op.output, op.out_headers, op.out_body, op.out_parts_attr)):
            if m is None:
                continue
            out.append(f'      <wsdl:{tag}>')
            for h in headers:
                out.append(f'        <soap:header message={quoteattr(tns + ":" + m.name.xml)} part={quoteattr(h.xml)} use="literal"/>')
            pa = f' parts={quoteattr(body.xml)}' if parts_attr else ""
            out.append(f'        <soap:body use="literal"{pa}/>')
            out.append(f'      </wsdl:{tag}>')
        out.append('    </wsdl:operation>')
    out.append('  </wsdl:binding>')
    out.append(f'  <wsdl:service name={quoteattr(w.service.xml)}>')
    out.append(f'    <wsdl:port name={quoteattr(w.port.xml)} binding={quoteattr(tns + ":" + w.binding.xml)}>')
    out.append(f'      <soap:address location={quoteattr(w.location)}/>')
    out.append('    </wsdl:port>')
    out.append('  </wsdl:service>')
    out.append('</wsdl:definitions>')
    return "\n".join(out) + "\n"


def _xsd_as_default(text, prefixes, wsdl_too):
    """The same document with XML Schema as the default namespace of every schema element that does not declare a default
    namespace of its own (<schema xmlns="…XMLSchema">, type="string"), and optionally the WSDL namespace as the default
    namespace of the definitions. Pure re-spelling: the infoset (names, namespaces, QName values) is unchanged."""
    import re

    def schema_block(m):
        block = m.group(0)
        x = m.group(1)
        head = block[: block.index(">")]
        if ' xmlns="' in head:
            return block
        if f' xmlns:{x}="{XSD_NS}"' in head:
            block = block.replace(f' xmlns:{x}="{XSD_NS}"', f' xmlns="{XSD_NS}"', 1)
        else:
            # the prefix was declared further out (on the definitions): the default namespace is declared here
            block = block.replace(f"<{x}:schema", f'<{x}:schema xmlns="{XSD_NS}"', 1)
        block = block.replace(f"<{x}:", "<").replace(f"</{x}:", "</")
        return re.sub(r'((?:type|base)=")%s:' % re.escape(x), r"\1", block)

    for x in sorted(prefixes):
        text = re.sub(r"<(%s):schema\b.*?</%s:schema>" % (re.escape(x), re.escape(x)), schema_block, text, flags=re.S)
    if wsdl_too and "<wsdl:definitions" in text:
        text = text.replace(f'<wsdl:definitions xmlns:wsdl="{WSDL_NS}"', f'<definitions xmlns="{WSDL_NS}"', 1)
        text = text.replace("<wsdl:", "<").replace("</wsdl:", "</")
    return text


def render_set(ss):
    """{filename: text}"""
    files = {}
    for f in ss.files:
        if ss.wsdl is not None and f.idx == 0:
            files[f.filename] = render_wsdl(ss)
        elif ss.wsdl is not None and getattr(ss, "inline_all", False):
            continue            # rendered inside the WSDL's <types>
        else:
            files[f.filename] = render_xsd(f, ss.files)
    if getattr(ss, "xsd_as_default", False):
        prefixes = {f.xs_prefix for f in ss.files}
        files = {n: _xsd_as_default(t, prefixes, getattr(ss, "wsdl_as_default", False)) for n, t in files.items()}
    return files
