"""WSDL run-time stage of engine G: discovers the generated client, builds request/response envelopes from abstract
samples, runs every operation against the scripted loopback listener and records findings for C05, C07, C16, C18."""
import re

from . import driver, instance, refmap, sample, wsdl_driver
from .common import rng
from .driver import rust_str
from .wsdl_driver import ElementValues, envelope_literal, envelope_tree, basic

CREDS = [None, ("alice", "s3cret"), ("dom\\user:x", ""), ("zoë", "pä:ss wörd")]


def discover_client(p):
    """(service struct name, {method name: fn json}) from the emitted file, or (None, {})."""
    for im in p.shape["impls"]:
        if im["trait"] is None and im["module"] == "" and any(f["name"] == "new" for f in im["fns"]):
            methods = {}
            for f in im["fns"]:
                if f["name"] != "new":
                    methods.setdefault(f["name"], []).append(f)
            return im["self_ty"], methods
    return None, {}


def _elements_of(op, msg, body_name, header_names):
    byname = {pt.name.xml: pt for pt in msg.parts}
    body = byname[body_name.xml].element.comp
    headers = [byname[h.xml].element.comp for h in header_names]
    return body, headers


def scenario_table(two_way, resp_docs, fault_doc, wrong_doc):
    """[(id, status, body-key, mode, creds index, expect)] expect: 'value' | 'error'."""
    sc = []
    ok = "value"
    sc.append(("ok-exact", 200, "resp0", 0, 0, ok))
    sc.append(("ok-fresh-prefixes-creds", 200, "resp1", 0, 1, ok))
    sc.append(("ok-default-ns-odd-creds", 200, "resp2", 0, 2, ok))
    sc.append(("ok-pushed-down-nonascii-creds", 200, "resp3", 0, 3, ok))
    sc.append(("ok-pretty", 200, "resp4", 0, 0, ok))
    sc.append(("200-bom-then-envelope", 200, "respbom", 0, 0, ok))
    sc.append(("200-xml-declaration-then-envelope", 200, "respdecl", 0, 1, ok))
    sc.append(("200-blank-lines-around-envelope", 200, "respws", 0, 0, ok))
    if any(ord(ch) > 127 for ch in resp_docs.get("resp0", "")):
        sc.append(("200-envelope-in-pieces-cut-inside-characters", 200, "resp0", 5, 0, ok))
    sc.append(("201-envelope", 201, "resp0", 0, 0, ok))
    sc.append(("200-chunked-envelope", 200, "resp1", 4, 1, ok))
    sc.append(("500-chunked-envelope", 500, "resp0", 4, 0, "error"))
    sc.append(("204-empty", 204, "empty", 0, 0, "error" if two_way else ok))
    for st in (400, 401, 403, 404, 500, 503):
        sc.append((f"{st}-envelope-body", st, "resp0", 0, 0, "error"))
    sc.append(("500-soap-fault", 500, "fault", 0, 1, "error"))
    sc.append(("200-empty-body", 200, "empty", 0, 0, "error" if two_way else ok))
    sc.append(("200-non-xml", 200, "nonxml", 0, 0, "error" if two_way else ok))
    sc.append(("200-xml-not-envelope", 200, "otherxml", 0, 0, "error" if two_way else ok))
    sc.append(("200-soap-fault", 200, "fault", 0, 0, "error" if two_way else ok))
    sc.append(("200-wrong-body-element", 200, "wrong", 0, 0, "error" if two_way else ok))
    for k in range(5):
        sc.append((f"200-truncated-{k}", 200, f"trunc{k}", 0, 0, "error" if two_way else ok))
    sc.append(("close-before-headers", 200, "resp0", 1, 0, "error"))
    sc.append(("close-after-request", 200, "resp0", 2, 1, "error"))
    sc.append(("close-mid-body", 200, "resp0", 3, 0, "error"))
    return sc


def stage_wsdl(p, full_matrix=True, restr=False, static_only=False):
    """static_only: only what can be read off the emitted text (service name, method set, method signatures, envelope shapes) —
    used for programs that do not compile, whose envelopes and methods are judged all the same."""
    w = p.ss.wsdl
    if w is None:
        return
    svc_name, methods = discover_client(p)
    p.stats["operations"] = len(w.operations)
    if svc_name is None:
        p.finding("client-missing", what="no struct with new(credentials) found")
        return
    if refmap.norm_ident(svc_name) != w.service.pascal:
        p.finding("service-name", expected=w.service.pascal, actual=svc_name, xml=w.service.xml, style=w.service.style)
    expected_methods = {op.name.snake: op for op in w.operations}
    actual_norm = {}
    for name, fl in methods.items():
        actual_norm.setdefault(refmap.norm_ident(name), []).extend(fl)
    for snake, op in expected_methods.items():
        fl = actual_norm.get(snake, [])
        if len(fl) != 1:
            p.finding("method-set", kind="missing" if not fl else "duplicate", op=op.name.xml, style=op.name.style,
                      keyword=op.name.has_keyword)
    for n in actual_norm:
        if n not in expected_methods:
            p.finding("method-set", kind="extra", op=n, style="?", keyword=False)

    r = rng("wsdl-values", p.label)
    ev = ElementValues(p, r)
    port = p.port
    fns = []
    meta = {}
    send_lines = []
    free_fns = {refmap.norm_ident(f["name"]): f for f in p.shape["fns"] if f["module"] == "" and f["async"]}
    for oi, op in enumerate(w.operations):
        fl = actual_norm.get(op.name.snake, [])
        if len(fl) != 1:
            continue
        f = fl[0]
        if not f["async"] or not f["pub"]:
            p.finding("method-signature", op=op.name.xml, what="not a pub async fn")
        ins = [a for a in f["inputs"] if a["name"] != "self"]
        m = re.match(r"^(?:error::)?SoapResult<(.*)>$", f["output"])
        if len(ins) != 1 or not m:
            p.finding("method-signature", op=op.name.xml, what=f"inputs={[a['type'] for a in ins]} output={f['output']}")
            continue
        req_ty, resp_ty = ins[0]["type"], m.group(1)
        two_way = op.output is not None
        if two_way and resp_ty == "()":
            p.finding("response-type", oneway=False, op=op.name.xml, what="operation has an output but the method returns ()")
            continue
        if not two_way and resp_ty != "()":
            p.finding("response-type", oneway=True, op=op.name.xml, what=f"one-way operation returns {resp_ty}")
            continue
        body_el, hdr_els = _elements_of(op, op.input, op.in_body, op.in_headers)
        try:
            bv = ev.value(body_el, "full")
            hvs = [ev.value(h, "rand") for h in hdr_els]
            req_lit, why = envelope_literal(p, req_ty, ev.literal(body_el, bv), [ev.literal(h, v) for h, v in zip(hdr_els, hvs)],
                                            body_el, hdr_els)
        except driver.GLit.Unbuildable as e:
            p.stats["ops_unbuildable"] = p.stats.get("ops_unbuildable", 0) + 1
            if "not uniquely located" in str(e):
                # the struct of a body / header element (or of something inside it) is not in the output at all: the envelope
                # cannot hold that element (a struct that is there but deviates in shape stays C02's finding)
                p.finding("envelope-shape", op=op.name.xml, direction="input", what="struct of a bound element is missing from the output",
                          headers=len(hdr_els), parts_attr=op.in_parts_attr)
            continue
        if req_lit is None:
            p.finding("envelope-shape", op=op.name.xml, direction="input", what=why, headers=len(hdr_els), parts_attr=op.in_parts_attr)
            continue
        req_tree = envelope_tree(ev.tree(body_el, bv), [ev.tree(h, v) for h, v in zip(hdr_els, hvs)])
        docs = {"empty": "", "nonxml": "this is not xml <<<", "otherxml": "<?xml version=\"1.0\"?><html><body>hello</body></html>"}
        docs["fault"] = (f'<soapenv:Envelope xmlns:soapenv="{wsdl_driver.SOAPENV}"><soapenv:Body><soapenv:Fault><faultcode>soapenv:Server</faultcode>'
                         f'<faultstring>boom</faultstring></soapenv:Fault></soapenv:Body></soapenv:Envelope>')
        resp_lit = "()"
        resp_tree = None
        if two_way:
            rb_el, rh_els = _elements_of(op, op.output, op.out_body, op.out_headers)
            try:
                rbv = ev.value(rb_el, "full")
                rhvs = [ev.value(h, "full") for h in rh_els]
                resp_lit, why = envelope_literal(p, resp_ty, ev.literal(rb_el, rbv), [ev.literal(h, v) for h, v in zip(rh_els, rhvs)],
                                                 rb_el, rh_els)
            except driver.GLit.Unbuildable as e:
                p.stats["ops_unbuildable"] = p.stats.get("ops_unbuildable", 0) + 1
                if "not uniquely located" in str(e):
                    p.finding("envelope-shape", op=op.name.xml, direction="output", what="struct of a bound element is missing from the output",
                              headers=len(rh_els), parts_attr=op.out_parts_attr)
                continue
            if resp_lit is None:
                p.finding("envelope-shape", op=op.name.xml, direction="output", what=why, headers=len(rh_els), parts_attr=op.out_parts_attr)
                continue
            resp_tree = envelope_tree(ev.tree(rb_el, rbv), [ev.tree(h, v) for h, v in zip(rh_els, rhvs)])
            for k, st in enumerate(instance.STYLES):
                docs[f"resp{k}"] = instance.render(resp_tree, st, rng("resp", p.label, oi, st))
            full = docs["resp0"]
            cuts = [len(full) // 6, len(full) // 3, len(full) // 2, len(full) * 3 // 4, len(full) - 3]
            for k, c in enumerate(cuts):
                docs[f"trunc{k}"] = full[:max(1, c)]
            # the same envelope behind what servers put in front of it: a byte order mark, an XML declaration, blank lines
            docs["respbom"] = "\ufeff" + full
            docs["respdecl"] = '<?xml version="1.0" encoding="utf-8" standalone="yes"?>\r\n' + full
            docs["respws"] = "\r\n  \t" + full + "\r\n"
            wrong_body = instance.Node(p.ss.files[0].uri, "NotTheExpectedElement", [], None, "x", None)
            docs["wrong"] = instance.render(envelope_tree(wrong_body, []), "root-prefixes")
        else:
            for k in range(5):
                docs[f"resp{k}"] = docs["fault"] if k == 4 else ""
                docs[f"trunc{k}"] = "<soapenv:Envel"
            docs["wrong"] = docs["otherxml"]
            docs["respbom"] = docs["respdecl"] = docs["respws"] = ""
        scen = scenario_table(two_way, docs, None, None)
        if not full_matrix:
            scen = [s for s in scen if s[0] in ("ok-exact", "ok-fresh-prefixes-creds", "500-soap-fault", "close-before-headers")]
        opid = f"op{oi}"
        method = f["name"]
        L = []
        L.append(f"fn case_{opid}() {{")
        L.append("    let sh = SHARED.get().unwrap().clone(); let rt = RT.get().unwrap();")
        L.append(f"    emit(format!(\"{{{{\\\"ev\\\":\\\"begin\\\",\\\"id\\\":\\\"{opid}\\\",\\\"side\\\":\\\"g\\\"}}}}\"));")
        L.append(f"    {{ let svc = g::{svc_name}::new(None); let req = {req_lit}; let fut = svc.{method}(req); assert_send(&fut); drop(fut); }} /*SEND:{opid}:method*/")
        L.append(f"    assert_send_sync::<g::{req_ty}>(); /*SEND:{opid}:request-envelope*/")
        L.append(f"    assert_send_sync::<g::multi_ref::MultiRef<g::{req_ty}>>(); /*SEND:{opid}:helper-multiref*/")
        if two_way:
            L.append(f"    assert_send_sync::<g::{resp_ty}>(); /*SEND:{opid}:response-envelope*/")
        ff = free_fns.get(op.name.snake)
        if ff is not None:
            L.append(f"    {{ let req = {req_lit}; let fut = g::{ff['name']}(req, None); assert_send(&fut); drop(fut); }} /*SEND:{opid}:free-fn*/")
        L.append(f"    {{ let req = {req_lit}; let s = yaserde::ser::to_string(&req); emit(format!(\"{{{{\\\"ev\\\":\\\"ser\\\",\\\"id\\\":\\\"{opid}\\\",{{}}}}}}\", rs(&s)));")
        L.append(f"      let c = req.check_restrictions(None); emit(format!(\"{{{{\\\"ev\\\":\\\"check\\\",\\\"id\\\":\\\"{opid}\\\",\\\"ok\\\":{{}}}}}}\", c.is_ok())); }}")
        L.append(f"    let expected_dbg = format!(\"{{:?}}\", {resp_lit});")
        L.append(f"    let location = g::{svc_name}::new(None).location.clone(); emit(format!(\"{{{{\\\"ev\\\":\\\"location\\\",\\\"id\\\":\\\"{opid}\\\",\\\"value\\\":{{}}}}}}\", js(&location)));")
        for sid, status, bodykey, mode, ci, expect in scen:
            cred = CREDS[ci]
            cred_lit = "None" if cred is None else f"Some(({rust_str(cred[0])}.to_string(), {rust_str(cred[1])}.to_string()))"
            L.append(f"    {{ set_script(&sh, {status}, {rust_str(docs[bodykey])}, {mode}); let svc = g::{svc_name}::new({cred_lit}); let req = {req_lit};")
            L.append(f"      let r = rt.block_on(async {{ tokio::spawn(async move {{ svc.{method}(req).await }}).await }}); /*SEND:{opid}:spawn*/")
            L.append("      let outcome = match r { Ok(Ok(v)) => { let d = format!(\"{:?}\", v); format!(\"\\\"result\\\":\\\"value\\\",\\\"debug_eq\\\":{},\\\"debug\\\":{},\\\"expected_debug\\\":{}\", d == expected_dbg, js(&d), js(if d == expected_dbg { \"\" } else { &expected_dbg })) }")
            L.append("        Ok(Err(e)) => format!(\"\\\"result\\\":\\\"error\\\",\\\"kind\\\":\\\"{}\\\",\\\"msg\\\":{}\", err_kind(&e), js(&e.to_string())),")
            L.append("        Err(_) => \"\\\"result\\\":\\\"join-error\\\"\".to_string() };")
            L.append(f"      report(&sh, {rust_str(sid)}, \"{opid}\", outcome); }}")
        if oi == 0 and full_matrix:
            # exactly-once under concurrency: 32 concurrent calls on the multi-thread runtime
            L.append(f"    {{ set_script(&sh, 200, {rust_str(docs['resp0'])}, 0); let svc = std::sync::Arc::new(g::{svc_name}::new(None));")
            L.append("      let results: Vec<bool> = rt.block_on(async { let mut hs = Vec::new(); for _ in 0..32 { let svc = svc.clone();")
            L.append(f"          hs.push(tokio::spawn(async move {{ let req = {req_lit}; svc.{method}(req).await.is_ok() }})); }}")
            L.append("          let mut out = Vec::new(); for h in hs { out.push(h.await.unwrap_or(false)); } out });")
            L.append("      let ok = results.iter().filter(|b| **b).count();")
            L.append(f"      report(&sh, \"concurrent-32\", \"{opid}\", format!(\"\\\"result\\\":\\\"batch\\\",\\\"ok\\\":{{}}\", ok)); }}")
        L.append(f"    emit(format!(\"{{{{\\\"ev\\\":\\\"end\\\",\\\"id\\\":\\\"{opid}\\\",\\\"side\\\":\\\"g\\\"}}}}\"));")
        L.append(f"    emit(format!(\"{{{{\\\"ev\\\":\\\"case-done\\\",\\\"id\\\":\\\"{opid}\\\"}}}}\"));")
        L.append("}")
        fns.append((opid, "\n".join(L)))
        meta[opid] = {"op": op, "req_tree": req_tree, "scen": scen, "two_way": two_way, "docs": docs, "method": method, "req_lit": req_lit,
                      "headers_in": len(hdr_els), "parts_attr": op.in_parts_attr}
    if not fns or static_only:
        return
    # a final case: the listener is stopped, the port is closed → connection refused
    first = next(iter(meta))
    fm = meta[first]
    extra = (wsdl_driver.LISTENER + "\nuse g::restrictions::CheckRestrictions as _CR;\n"
             "static SHARED: std::sync::OnceLock<Arc<Shared>> = std::sync::OnceLock::new();\n"
             "static RT: std::sync::OnceLock<tokio::runtime::Runtime> = std::sync::OnceLock::new();\n"
             f"const PORT: u16 = {port};\n"
             "fn case_init() {\n"
             "    let Some(sh) = start_listener(PORT) else { emit(\"{\\\"ev\\\":\\\"bind-failed\\\"}\".to_string()); std::process::exit(3); };\n"
             "    let _ = SHARED.set(sh);\n"
             "    let _ = RT.set(tokio::runtime::Builder::new_multi_thread().worker_threads(2).enable_all().build().unwrap());\n"
             "}\n")
    fns = [("init", "")] + fns
    if full_matrix:
        # last case: the listener is stopped and its socket dropped, so the port refuses connections
        m0 = meta[first]
        req_lit0 = m0["req_lit"]
        extra += ("fn case_refused() {\n"
                  "    let sh = SHARED.get().unwrap().clone(); let rt = RT.get().unwrap();\n"
                  "    emit(\"{\\\"ev\\\":\\\"begin\\\",\\\"id\\\":\\\"refused\\\",\\\"side\\\":\\\"g\\\"}\".to_string());\n"
                  "    set_script(&sh, 200, \"\", 0); sh.stop.store(true, Ordering::SeqCst);\n"
                  "    let _ = std::net::TcpStream::connect((\"127.0.0.1\", PORT)); std::thread::sleep(std::time::Duration::from_millis(150));\n"
                  f"    let svc = g::{svc_name}::new(None); let req = {req_lit0};\n"
                  f"    let r = rt.block_on(async {{ svc.{m0['method']}(req).await }});\n"
                  "    let outcome = match r { Ok(_) => \"\\\"result\\\":\\\"value\\\"\".to_string(), Err(e) => format!(\"\\\"result\\\":\\\"error\\\",\\\"kind\\\":\\\"{}\\\"\", err_kind(&e)) };\n"
                  f"    emit(format!(\"{{{{\\\"ev\\\":\\\"refused\\\",\\\"op\\\":\\\"{first}\\\",{{}}}}}}\", outcome));\n"
                  "    emit(\"{\\\"ev\\\":\\\"end\\\",\\\"id\\\":\\\"refused\\\",\\\"side\\\":\\\"g\\\"}\".to_string());\n"
                  "    emit(\"{\\\"ev\\\":\\\"case-done\\\",\\\"id\\\":\\\"refused\\\"}\".to_string());\n"
                  "}\n")
        fns = fns + [("refused", "")]
    events, hung, diags = driver.build_and_run(p, fns, extra_items=extra, name="wdrv", timeout=180)
    if diags is not None:
        # map not-Send diagnostics back to operations; anything else is a harness problem
        src = open(p.dir + "/wdrv.rs", encoding="utf-8").read().splitlines()
        unknown = []
        for d in diags:
            line = src[d["line"] - 1] if d.get("line") and d["line"] <= len(src) else ""
            mm = re.search(r"/\*SEND:(op\d+):([a-z-]+)\*/", line)
            msg = d.get("message", "")
            if mm and (d.get("code") == "E0277" or "Send" in msg or "Sync" in msg or "between threads" in msg):
                because = ""
                for c in d.get("children", []) + [msg]:
                    m2 = re.search(r"`((?:std::rc::)?Rc<[^`]*>|\*(?:const|mut) [^`]*|[^`]*dyn [^`]*|[^`]*RefCell[^`]*|[^`]*MutexGuard[^`]*|[^`]*Cell<[^`]*)`", c)
                    if m2:
                        because = re.sub(r"<.*", "", m2.group(1).replace("std::rc::", ""))
                        break
                p.finding("not-send", what=mm.group(2), op=meta[mm.group(1)]["op"].name.xml if mm.group(1) in meta else "?",
                          message=d["message"][:200], because=because)
            else:
                unknown.append(d)
        if unknown and not any(f["rule"] == "not-send" for f in p.findings):
            p.inconclusive = f"wsdl driver does not compile: {unknown[:2]}"
        return
    if any(e.get("ev") == "bind-failed" for e in events):
        p.inconclusive = "listener port could not be bound"
        return
    for h in hung:
        p.finding("runtime-hang" if h["how"] == "hang" else "runtime-crash", struct=h["id"], how=h["how"], stderr=h.get("stderr", ""))
    judge(p, events, meta, svc_name)


def judge(p, events, meta, svc_name):
    w = p.ss.wsdl
    calls = {}
    sers = {}
    for e in events:
        if e.get("ev") == "call":
            calls[(e["op"], e["scenario"])] = e
        elif e.get("ev") == "ser":
            sers[e["id"]] = e
        elif e.get("ev") == "location":
            if e["value"].rstrip("/") != w.location.rstrip("/"):
                p.finding("address", expected=w.location, actual=e["value"])
    st = p.stats

    def bump(k, n=1):
        st[k] = st.get(k, 0) + n

    for e in events:
        if e.get("ev") == "refused":
            bump("scenario:connection-refused")
            if e.get("result") != "error" or e.get("kind") != "Http":
                p.finding("value-for-failure" if e.get("result") == "value" else "refused-error-kind", op=meta[e["op"]]["op"].name.xml,
                          scenario="connection-refused", status=0, body="-", mode=9, result=e.get("result"), kind=e.get("kind"), msg="",
                          accepts=0, requests=0)
    for opid, m in meta.items():
        op = m["op"]
        s = sers.get(opid)
        if s is None:
            continue
        bump("operations_run")
        bump(f"opcell:style={op.name.style}|keyword={op.name.has_keyword}|{'two-way' if m['two_way'] else 'one-way'}|headers-in={m['headers_in']}"
             f"|headers-out={len(op.out_headers)}|parts-attr={m['parts_attr']}")
        # ---- C05: the serialized request envelope
        if not s["ok"]:
            p.finding("envelope-ser-error", op=op.name.xml, err=s.get("err"))
            continue
        try:
            act = instance.parse(s["text"])
            for d in instance.compare(m["req_tree"], act):
                p.finding("envelope", op=op.name.xml, diff=d, headers=m["headers_in"], parts_attr=m["parts_attr"], xml=s["text"][:700])
            bump("envelopes_compared")
        except instance.ParseError as e:
            p.finding("envelope", op=op.name.xml, diff={"kind": "not-wellformed", "reason": str(e)}, headers=m["headers_in"],
                      parts_attr=m["parts_attr"], xml=s["text"][:700])
        # ---- C16 / C05: calls
        for sid, status, bodykey, mode, ci, expect in m["scen"]:
            c = calls.get((opid, sid))
            if c is None:
                continue
            bump("calls_observed")
            bump(f"scenario:{sid}")
            bump(f"scencell:{sid}|{'two-way' if m['two_way'] else 'one-way'}|headers-in={min(m['headers_in'], 2)}")
            reqs = c["requests"]
            transport_fault = mode == 1
            ctx = {"op": op.name.xml, "scenario": sid, "status": status, "body": bodykey, "mode": mode, "result": c.get("result"),
                   "kind": c.get("kind"), "msg": (c.get("msg") or "")[:200], "accepts": c["accepts"], "requests": len(reqs)}
            if c["accepts"] != 1:
                p.finding("request-count", **ctx, what=f"connections accepted: {c['accepts']}")
            if not transport_fault:
                if len(reqs) != 1:
                    p.finding("request-count", **ctx, what=f"requests logged: {len(reqs)}")
                for rq in reqs[:1]:
                    if not rq["request_line"].startswith("POST "):
                        p.finding("http-method", **ctx, request_line=rq["request_line"])
                    path = rq["request_line"].split(" ")[1] if " " in rq["request_line"] else ""
                    from urllib.parse import urlparse
                    u = urlparse(w.location)
                    target = (u.path or "/") + (";" + u.params if u.params else "") + ("?" + u.query if u.query else "")
                    if path != target:
                        p.finding("address", expected=w.location, actual=path)
                    if rq["host"] != u.netloc:
                        p.finding("address", expected=u.netloc, actual="Host: " + rq["host"])
                    if rq["body"] != s["text"]:
                        p.finding("body-mismatch", **ctx)
                    cred = CREDS[ci]
                    if cred is None and rq["authorization"]:
                        p.finding("auth", **ctx, configured=False, seen=rq["authorization"][:40])
                    if cred is not None and rq["authorization"] != basic(*cred):
                        p.finding("auth", **ctx, configured=True, seen=rq["authorization"][:60], expected=basic(*cred))
            if c.get("result") == "value":
                if expect != "value":
                    p.finding("value-for-failure", **ctx)
                elif m["two_way"] and not c.get("debug_eq"):
                    a, b = c.get("debug", ""), c.get("expected_debug", "")
                    k = next((i for i, (x, y) in enumerate(zip(a, b)) if x != y), min(len(a), len(b)))
                    p.finding("response-value", **ctx, debug=a[:300], first_difference={"at": k, "actual": a[max(0, k - 60):k + 80],
                                                                                        "expected": b[max(0, k - 60):k + 80]})
            elif c.get("result") == "error":
                if expect == "value":
                    p.finding("error-for-success", **ctx)
            else:
                p.finding("call-did-not-complete", **ctx)
        c = calls.get((opid, "concurrent-32"))
        if c is not None:
            bump("concurrent_batches")
            if c["accepts"] != 32 or len(c["requests"]) != 32 or c.get("ok") != 32:
                p.finding("request-count", op=op.name.xml, scenario="concurrent-32", what=f"accepts={c['accepts']} requests={len(c['requests'])} ok={c.get('ok')}",
                          status=200, body="resp0", mode=0, result="batch", kind=None, msg="", accepts=c["accepts"], requests=len(c["requests"]))
            elif any(rq["body"] != s["text"] for rq in c["requests"]):
                p.finding("body-mismatch", op=op.name.xml, scenario="concurrent-32", status=200, body="resp0", mode=0, result="batch",
                          kind=None, msg="", accepts=32, requests=32)


# ------------------------------------------------------------------------------------------------ C07: restrictions

def leaf_variants(v, path=None, ctx=None):
    """Yield (value', info) with exactly one simple-typed leaf of v replaced by a value violating one facet."""
    from .gen import flat_members
    ctx = ctx or {"depth": 0, "optional": False, "repeated": False}
    if v[0] == "s":
        st = v[1]
        for lex, (owner, facet) in sample.simple_violating_values(st):
            k = 0
            t = st
            while t is not owner:
                t = t.base.comp
                k += 1
            yield ("s", st, lex), {"facet": facet, "derivation": "own" if k == 0 else f"inherited-{k}", "lexical": lex, **ctx}
        return
    if v[0] != "c":
        return
    _, comp, vals = v
    for i, (m, x) in enumerate(zip(flat_members(comp), vals)):
        sub = dict(ctx, depth=ctx["depth"] + 1, optional=ctx["optional"] or m["optional"], repeated=ctx["repeated"] or m["repeated"],
                   position="attribute" if m["kind"] == "attribute" else ctx.get("position", "element"))
        if isinstance(x, list):
            for j, it in enumerate(x):
                for it2, info in leaf_variants(it, None, sub):
                    nx = list(x)
                    nx[j] = it2
                    nv = list(vals)
                    nv[i] = nx
                    yield ("c", comp, nv), info
        elif x is not None:
            for it2, info in leaf_variants(x, None, sub):
                nv = list(vals)
                nv[i] = it2
                yield ("c", comp, nv), info


def leaf_valid_variants(v):
    """Yield value' with exactly one simple-typed leaf of v replaced by another VALID value of its type — every value the facets
    allow, the empty string and values with blanks included (the ordinary sampler keeps to plain text)."""
    from .gen import flat_members
    if v[0] == "s":
        for lex in sample.simple_valid_values(v[1]):
            lex = lex if isinstance(lex, str) else lex[1]
            if lex != v[2]:
                yield ("s", v[1], lex)
        return
    if v[0] != "c":
        return
    _, comp, vals = v
    for i, (m, x) in enumerate(zip(flat_members(comp), vals)):
        if isinstance(x, list):
            for j, it in enumerate(x):
                for it2 in leaf_valid_variants(it):
                    nx = list(x)
                    nx[j] = it2
                    nv = list(vals)
                    nv[i] = nx
                    yield ("c", comp, nv)
        elif x is not None:
            for it2 in leaf_valid_variants(x):
                nv = list(vals)
                nv[i] = it2
                yield ("c", comp, nv)


def stage_restr(p):
    """C07: check_restrictions(None) on request envelopes with exactly one violating value per reachable position, and the
    client call for each of them against the listener (no connection may be accepted)."""
    w = p.ss.wsdl
    if w is None:
        return
    svc_name, methods = discover_client(p)
    if svc_name is None:
        return
    actual_norm = {}
    for name, fl in methods.items():
        actual_norm.setdefault(refmap.norm_ident(name), []).extend(fl)
    r = rng("restr-values", p.label)
    ev = ElementValues(p, r)
    fns = []
    meta = {}
    for oi, op in enumerate(w.operations):
        fl = actual_norm.get(op.name.snake, [])
        if len(fl) != 1:
            continue
        f = fl[0]
        ins = [a for a in f["inputs"] if a["name"] != "self"]
        if len(ins) != 1:
            continue
        req_ty = ins[0]["type"]
        body_el, hdr_els = _elements_of(op, op.input, op.in_body, op.in_headers)
        els = [("body", body_el)] + [("header", h) for h in hdr_els]
        variants = []       # (label, [values per element], info or None)
        try:
            for mode in ("full", "lo", "hi", "many"):
                variants.append((f"valid-{mode}", [ev.value(e, mode) for _, e in els], None))
            base = variants[0][1]
            n_valid = 0
            for k, (role, e) in enumerate(els):
                for nv in leaf_valid_variants(base[k]):
                    vals = list(base)
                    vals[k] = nv
                    variants.append((f"valid-other-value-{n_valid}", vals, None))
                    n_valid += 1
                    if n_valid >= 10:
                        break
                if n_valid >= 10:
                    break
            for k, (role, e) in enumerate(els):
                for nv, info in leaf_variants(base[k], None, {"depth": 0, "optional": False, "repeated": False, "position": "element"}):
                    vals = list(base)
                    vals[k] = nv
                    variants.append((f"viol{len(variants)}", vals, dict(info, part=role)))
                    if len(variants) >= 54:
                        break
            lits = []
            for label, vals, info in variants:
                lit, why = envelope_literal(p, req_ty, ev.literal(body_el, vals[0]), [ev.literal(h, v) for h, v in zip(hdr_els, vals[1:])],
                                            body_el, hdr_els)
                if lit is None:
                    raise driver.GLit.Unbuildable(why)
                lits.append(lit)
        except driver.GLit.Unbuildable:
            p.stats["ops_unbuildable"] = p.stats.get("ops_unbuildable", 0) + 1
            continue
        opid = f"op{oi}"
        method = f["name"]
        L = [f"fn case_{opid}() {{", "    let sh = SHARED.get().unwrap().clone(); let rt = RT.get().unwrap();",
             f"    emit(format!(\"{{{{\\\"ev\\\":\\\"begin\\\",\\\"id\\\":\\\"{opid}\\\",\\\"side\\\":\\\"g\\\"}}}}\"));"]
        for (label, vals, info), lit in zip(variants, lits):
            L.append(f"    {{ set_script(&sh, 200, \"\", 0); let req = {lit}; let c = req.check_restrictions(None);")
            L.append(f"      let svc = g::{svc_name}::new(None);")
            L.append(f"      let r = rt.block_on(async {{ svc.{method}(req).await }});")
            L.append("      let outcome = match r { Ok(_) => \"\\\"result\\\":\\\"value\\\"\".to_string(), Err(e) => format!(\"\\\"result\\\":\\\"error\\\",\\\"kind\\\":\\\"{}\\\"\", err_kind(&e)) };")
            L.append(f"      report(&sh, {rust_str(label)}, \"{opid}\", format!(\"\\\"check_ok\\\":{{}},{{}}\", c.is_ok(), outcome)); }}")
        L.append(f"    emit(format!(\"{{{{\\\"ev\\\":\\\"end\\\",\\\"id\\\":\\\"{opid}\\\",\\\"side\\\":\\\"g\\\"}}}}\"));")
        L.append(f"    emit(format!(\"{{{{\\\"ev\\\":\\\"case-done\\\",\\\"id\\\":\\\"{opid}\\\"}}}}\"));")
        L.append("}")
        fns.append((opid, "\n".join(L)))
        meta[opid] = {"op": op, "variants": variants}
    if not fns:
        return
    extra = (wsdl_driver.LISTENER + "\nuse g::restrictions::CheckRestrictions as _CR;\n"
             "static SHARED: std::sync::OnceLock<Arc<Shared>> = std::sync::OnceLock::new();\n"
             "static RT: std::sync::OnceLock<tokio::runtime::Runtime> = std::sync::OnceLock::new();\n"
             f"const PORT: u16 = {p.port};\n"
             "fn case_init() {\n"
             "    let Some(sh) = start_listener(PORT) else { emit(\"{\\\"ev\\\":\\\"bind-failed\\\"}\".to_string()); std::process::exit(3); };\n"
             "    let _ = SHARED.set(sh);\n"
             "    let _ = RT.set(tokio::runtime::Builder::new_multi_thread().worker_threads(2).enable_all().build().unwrap());\n"
             "}\n")
    events, hung, diags = driver.build_and_run(p, [("init", "")] + fns, extra_items=extra, name="rdrv", timeout=180)
    if diags is not None:
        p.inconclusive = f"restriction driver does not compile: {diags[:2]}"
        return
    if any(e.get("ev") == "bind-failed" for e in events):
        p.inconclusive = "listener port could not be bound"
        return
    calls = {(e["op"], e["scenario"]): e for e in events if e.get("ev") == "call"}
    for opid, m in meta.items():
        for label, vals, info in m["variants"]:
            c = calls.get((opid, label))
            if c is None:
                continue
            p.stats["restr_samples"] = p.stats.get("restr_samples", 0) + 1
            if info is None:
                p.stats["restr_valid_samples"] = p.stats.get("restr_valid_samples", 0) + 1
                if not c["check_ok"]:
                    p.finding("restr-spurious", op=m["op"].name.xml, sample=label)
                elif c["accepts"] != 1:
                    p.finding("restr-valid-not-sent", op=m["op"].name.xml, sample=label, accepts=c["accepts"], kind=c.get("kind"))
                continue
            key = f"{info['part']}/{info['position']}/depth{min(info['depth'], 4)}/{'opt' if info['optional'] else 'req'}/{'rep' if info['repeated'] else 'one'}/{info['facet']}/{info['derivation']}"
            p.stats["restr_cell:" + key] = p.stats.get("restr_cell:" + key, 0) + 1
            ctx = dict(op=m["op"].name.xml, **{k: v for k, v in info.items()})
            if c["check_ok"]:
                p.finding("restr-missed", **ctx)
            if c["accepts"] != 0:
                p.finding("restr-sent-before-check", **ctx, accepts=c["accepts"])
            if c.get("result") != "error" or c.get("kind") != "Restriction":
                p.finding("restr-error-kind", **ctx, result=c.get("result"), got_kind=c.get("kind"))
