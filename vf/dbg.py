"""python3 -m vf.dbg <PROP> <profile>#<i> [cfgset]  — regenerate one program and leave it in work/dbg/ for inspection."""
import sys, os, shutil
from . import common, engine_g, gen

def main():
    prop, label = sys.argv[1], sys.argv[2]
    name, i = label.split("#")
    i = int(i)
    q = engine_g._quarantine([prop])
    cfgs = dict(engine_g.all_cfgs(q))
    r = common.rng(prop, name, i)
    ss = gen.generate(r, cfgs[name])
    root = os.path.join(common.WORK, "dbg")
    shutil.rmtree(root, ignore_errors=True)
    os.makedirs(root)
    port = None
    if ss.wsdl is not None:
        from .wsdl_driver import free_port
        port = free_port()
        ss.wsdl.location = f"http://127.0.0.1:{port}/soap/{name}/{i}"
    p = engine_g.Program(i, ss, root, label)
    p.port = port
    stages = sys.argv[3].split(",") if len(sys.argv) > 3 else ["static", "probe"]
    if "wsdl" in stages:
        from . import engine_w
        stages = [x for x in stages if x != "wsdl"] + [lambda p: engine_w.stage_wsdl(p)]
    if "runtime" in stages:
        stages = [x for x in stages if x != "runtime"] + [engine_g.stage_runtime]
    engine_g.run_programs([p], stages)
    print("dir:", p.dir, "features:", sorted(ss.features))
    print("gen:", {k: v for k, v in (p.gen or {}).items() if k != "text"})
    print("compile:", p.compile)
    print("inconclusive:", p.inconclusive)
    for f in p.findings:
        print("FINDING", {k: v for k, v in f.items() if k != "flat"})
    print("stats", p.stats)

main()
