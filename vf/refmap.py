"""Reference mapping: schema model → the Rust shapes C02/C05/C08/C09 expect. Written from the property text and
the XSD definitions only."""
from .gen import flat_members
from .model import BUILTINS, NOT_RAW

HELPER_MODULES = ("error", "helpers", "restrictions", "multi_ref")


def norm_ident(s):
    """Identifier comparison modulo keyword escaping: r#type == type, self_ == self."""
    if s.startswith("r#"):
        s = s[2:]
    return s.rstrip("_")


def expected_structs(ss):
    """One entry per component that must have a struct: named complex types, named simple types, anonymous-typed
    global elements."""
    out = []
    for f, c in ss.all_components():
        if c.kind == "gelement" and not c.anonymous:
            continue
        e = {"comp": c, "file": f.idx, "uri": f.uri, "pascal": c.name.pascal, "xml": c.name.xml,
             "kind": "simple" if c.kind == "simple" else ("complex" if c.kind == "complex" else "anon-element"), "members": None}
        if c.kind != "simple":
            e["members"] = [expected_member(ss, m) for m in flat_members(c)]
        out.append(e)
    return out


def member_target(m):
    """('builtin', xsd-name) or ('struct', component) for a flat member."""
    if m["kind"] == "ref":
        g = m["target"]
        if g.anonymous:
            return ("struct", g)
        t = g.type
    else:
        t = m["type"]
    if t.builtin:
        return ("builtin", t.name)
    return ("struct", t.comp)


def expected_member(ss, m):
    tgt = member_target(m)
    wrapper = "Vec" if m["repeated"] else ("Option" if m["optional"] else "")
    return {"name": m["name"], "snake": m["name"].snake, "xml": m["name"].xml, "kind": m["kind"], "wrapper": wrapper,
            "target": tgt, "position": m["position"], "inherited": m.get("inherited", 0),
            "decl_uri": ss.files[m["decl_file"]].uri, "decl_file": m["decl_file"], "flat": m}


def occurs_desc(m):
    it = m["flat"]["item"]
    if m["kind"] == "attribute":
        return "use=" + ("required" if it.required else "optional")
    return f"min={it.min},max={'n' if isinstance(it.max, int) and it.max > 1 else it.max},effective={m['wrapper'] or 'T'}"


def locate_structs(shape, expected):
    """For every expected struct find the emitted struct(s): same identifier (modulo keyword escaping) and, when the
    component has a namespace, a `namespaces` attribute that binds that URI. Returns {id(expected entry): [struct, …]}."""
    by_name = {}
    for s in shape["structs"]:
        if s["module"].split("::")[0] in HELPER_MODULES:
            continue
        by_name.setdefault(norm_ident(s["name"]), []).append(s)
    out = {}
    for e in expected:
        cands = by_name.get(e["pascal"], [])
        if e["uri"] is not None:
            # the struct's own namespace is the one its own prefix is bound to
            hit = [s for s in cands if any(p[0] == s["yaserde"].get("prefix") and p[1] == e["uri"]
                                           for p in (s["yaserde"].get("namespaces") or []))]
        else:
            hit = [s for s in cands if not s["yaserde"].get("namespaces")]
        out[id(e)] = hit
    return out


def rust_path(s):
    return "g::" + (s["module"] + "::" if s["module"] else "") + s["name"]


def type_expr(m, located, by_comp, struct_comp=None):
    """Exact expected Rust type of a member as source text, or None when the target struct is not in the output. struct_comp: the
    component whose struct the member belongs to — a non-repeated member of that very type needs an indirection, which is the
    shared-reference helper (transparent per C19)."""
    kind, t = m["target"]
    if kind == "builtin":
        inner = BUILTINS[t]
    else:
        e = by_comp.get(id(t))
        hits = located.get(id(e), []) if e is not None else []
        if len(hits) != 1:
            return None
        inner = rust_path(hits[0])
        if t is struct_comp and m["wrapper"] != "Vec":
            inner = f"g::multi_ref::MultiRef<{inner}>"
    if m["wrapper"]:
        return f"{m['wrapper']}<{inner}>"
    return inner


def abstract_type(ty, struct_names):
    """'Option<mod_x::Foo>' → ('Option', 'T'); 'Vec<i64>' → ('Vec', 'i64'); used for signatures only."""
    ty = ty.replace(" ", "")
    wrapper = ""
    for w in ("Option", "Vec"):
        if ty.startswith(w + "<") and ty.endswith(">"):
            wrapper, ty = w, ty[len(w) + 1:-1]
            break
    last = ty.split("::")[-1]
    if last in BUILTINS.values() or last in ("String", "bool"):
        return wrapper, last
    return wrapper, "T"
