"""./check <ID> --replay <dir>: re-run the witness of a violation against /repo's current working tree.
A replay bundle holds witness.json and, for input-driven checks, the input files (in/…, start.txt). The replay feeds those
files to the real generator again and reports what happens now (outcome, compile result, struct list); for checks without
input files (C06, C19, C15 …) it prints the witness and re-runs the quick check."""
import json
import os
import shutil
import subprocess
import sys

from . import common, rustbuild


def run(prop, path):
    wpath = os.path.join(path, "witness.json")
    if not os.path.exists(wpath):
        print(f"no witness.json in {path}")
        return 2
    w = json.load(open(wpath))
    print(f"replaying {w['property']} signature: {w['signature']}")
    print("witness detail:", json.dumps(w["detail"], ensure_ascii=False)[:1500])
    indir = os.path.join(path, "in")
    if not os.path.isdir(indir):
        print("no input files in this bundle; re-running the quick check instead")
        return subprocess.call([os.path.join(common.VERIF, "check"), prop, "--tier", "quick"])
    start = open(os.path.join(path, "start.txt")).read().strip()
    zdrive = common.build_tool("zdrive")
    work = common.scratch("replay")
    try:
        files = {}
        for root, _, fs in os.walk(indir):
            for f in fs:
                files[os.path.relpath(os.path.join(root, f), indir)] = open(os.path.join(root, f), encoding="utf-8", errors="replace").read()
        out = os.path.join(work, "emitted.rs")
        wk = common.ZWorker(zdrive)
        res = wk.run({"id": 0, "op": "gen", "files": files, "start": start, "bytes_path": out, "want_structs": True, "cpu_budget_s": 60})
        wk.close()
        if "died" in res:
            print("generator outcome now: process died:", common.classify_death(res), res.get("stderr", "")[-300:])
            return 1
        call = res["calls"][0]
        print("generator outcome now:", {k: v for k, v in call.items() if k not in ("structs", "text")})
        if call["outcome"] == "panic":
            return 1
        if call["outcome"] != "ok":
            return 0
        print("structs:", ", ".join(f"{m}::{n}" if m else n for m, n in call.get("structs", []) if m.split("::")[0] not in ("error", "helpers", "restrictions", "multi_ref"))[:1500])
        host = os.path.join(work, "host.rs")
        with open(host, "w") as f:
            f.write('#![allow(warnings)]\n#[path = "emitted.rs"]\npub mod g;\n')
        rc, diags = rustbuild.check_lib(host, work)
        print("rustc on the emitted file now:", "ok" if rc == 0 else f"FAILED ({len(diags)} diagnostics)")
        for d in diags[:5]:
            print("  ", d["code"], d["message"][:160], "| line:", d["text"][:120])
        keep = os.path.join(path, "emitted.now.rs")
        shutil.copy(out, keep)
        print("current output kept as", keep)
        return 0 if rc == 0 else 1
    finally:
        shutil.rmtree(work, ignore_errors=True)
