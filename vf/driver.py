"""Synthesis of the run-time driver: the emitted module `g`, independently written reference structs `r`, literal
constructors for abstract values in both, and a main() that logs JSON events (ser / de / debug / fixpoint / check)."""
import json
import os
import subprocess

from . import refmap, rustbuild
from .gen import flat_members
from .model import BUILTINS
from .refmap import member_target


def rust_str(s):
    out = ['"']
    for ch in s:
        o = ord(ch)
        if ch == '"':
            out.append('\\"')
        elif ch == "\\":
            out.append("\\\\")
        elif ch == "\n":
            out.append("\\n")
        elif ch == "\r":
            out.append("\\r")
        elif ch == "\t":
            out.append("\\t")
        elif o < 0x20 or o == 0x7f:
            out.append("\\u{%x}" % o)
        else:
            out.append(ch)
    out.append('"')
    return "".join(out)


def builtin_literal(b, pv):
    c = BUILTINS[b]
    if c == "String":
        return rust_str(pv) + ".to_string()"
    if c == "bool":
        return "true" if pv else "false"
    if c in ("f32", "f64"):
        return f"({pv!r}{c})" if pv >= 0 else f"({pv!r}{c})"
    return f"({pv}{c})"


# ------------------------------------------------------------------------------------------------- reference structs

class RefEmit:
    """Reference yaserde structs for every complex type / anonymous element of a model (module `r`)."""

    def __init__(self, p):
        self.p = p
        self.ss = p.ss
        self.names = {}
        for i, e in enumerate(x for x in p.expected if x["members"] is not None):
            self.names[id(e["comp"])] = f"R{i}"
        # named simple types: C02 pins "the struct generated for the named type", so the reference has one too — a
        # plain text struct, whatever the base
        self.simple = [x for x in p.expected if x["members"] is None]
        for i, e in enumerate(self.simple):
            self.names[id(e["comp"])] = f"RS{i}"
        uris = []
        for f in self.ss.files:
            if f.uri is not None and f.uri not in uris:
                uris.append(f.uri)
        self.pfx = {u: f"n{i}" for i, u in enumerate(uris)}

    def member_type(self, m, struct_comp=None):
        kind, t = member_target(m)
        if kind == "builtin":
            inner = BUILTINS[t]
        else:
            inner = self.names[id(t)]
        w = "Vec" if m["repeated"] else ("Option" if m["optional"] else "")
        if kind != "builtin" and t is struct_comp and w != "Vec":
            # a member of the struct's own type: the reference struct takes its indirection from a Vec (such members are always
            # left out of the sampled values, so nothing but the emptiness of that Vec is ever compared)
            w = "Vec"
        return f"{w}<{inner}>" if w else inner

    def source(self):
        out = ["pub mod r {", "    use yaserde_derive::{YaDeserialize, YaSerialize};"]
        for e in self.simple:
            head = []
            if e["uri"] is not None:
                head.append(f'prefix = "{self.pfx[e["uri"]]}"')
                head.append(f'namespaces = {{"{self.pfx[e["uri"]]}" = {rust_str(e["uri"])}}}')
            head.append(f"rename = {rust_str(e['xml'])}")
            out.append("    #[derive(Debug, Default, YaSerialize, YaDeserialize)]")
            out.append(f"    #[yaserde({', '.join(head)})]")
            out.append(f"    pub struct {self.names[id(e['comp'])]} {{ #[yaserde(text = true)] pub value: String }}")
        for e in self.p.expected:
            if e["members"] is None:
                continue
            comp = e["comp"]
            name = self.names[id(comp)]
            members = flat_members(comp)
            used = {e["uri"]} | {self.ss.files[m["decl_file"]].uri for m in members if m["kind"] != "attribute"}
            used.discard(None)
            ns = ", ".join(f'"{self.pfx[u]}" = {rust_str(u)}' for u in sorted(used, key=lambda u: self.pfx[u]))
            head = []
            if e["uri"] is not None:
                head.append(f'prefix = "{self.pfx[e["uri"]]}"')
            if ns:
                head.append(f"namespaces = {{{ns}}}")
            head.append(f"rename = {rust_str(e['xml'])}")
            out.append("    #[derive(Debug, Default, YaSerialize, YaDeserialize)]")
            out.append(f"    #[yaserde({', '.join(head)})]")
            out.append(f"    pub struct {name} {{")
            for i, m in enumerate(members):
                if m["kind"] == "attribute":
                    out.append(f"        #[yaserde(attribute = true, rename = {rust_str(m['name'].xml)})]")
                else:
                    u = self.ss.files[m["decl_file"]].uri
                    pre = f'prefix = "{self.pfx[u]}", ' if u is not None else ""
                    out.append(f"        #[yaserde({pre}rename = {rust_str(m['name'].xml)})]")
                out.append(f"        pub f{i}: {self.member_type(m, comp)},")
            out.append("    }")
        out.append("}")
        return "\n".join(out)

    def literal(self, v):
        if v[0] == "b":
            return builtin_literal(v[1], v[2])
        if v[0] == "s":
            return f"r::{self.names[id(v[1])]} {{ value: {rust_str(v[2])}.to_string() }}"
        _, comp, vals = v
        fields = []
        for i, (m, x) in enumerate(zip(flat_members(comp), vals)):
            if member_target(m)[1] is comp and not m["repeated"]:
                fields.append(f"f{i}: vec![]")
                continue
            fields.append(f"f{i}: {self._wrapped(m, x, self.literal)}")
        return f"r::{self.names[id(comp)]} {{ {', '.join(fields)} }}"

    @staticmethod
    def _wrapped(m, x, lit):
        if m["repeated"]:
            return "vec![" + ", ".join(lit(i) for i in (x or [])) + "]"
        if m["optional"]:
            return "None" if x is None else f"Some({lit(x)})"
        return lit(x)


# ------------------------------------------------------------------------------------------------- literals for g

class GLit:
    """Literals for the emitted types. Only structs whose shape matched the reference mapping are constructed."""

    class Unbuildable(Exception):
        pass

    def __init__(self, p):
        self.p = p

    def struct_for(self, comp):
        e = self.p.by_comp.get(id(comp))
        hits = self.p.located.get(id(e), []) if e is not None else []
        if len(hits) != 1:
            raise GLit.Unbuildable(f"struct for {comp.name.xml} not uniquely located")
        return e, hits[0]

    def simple_literal(self, st, text):
        e, s = self.struct_for(st)
        if len(s["fields"]) != 1:
            raise GLit.Unbuildable("simple struct without exactly one field")
        f = s["fields"][0]
        if f["type"] == "String":
            return f"{refmap.rust_path(s)} {{ {f['name']}: {rust_str(text)}.to_string() }}"
        if not st.base.builtin:
            return f"{refmap.rust_path(s)} {{ {f['name']}: {self.simple_literal(st.base.comp, text)} }}"
        raise GLit.Unbuildable(f"simple struct field of type {f['type']}")

    def literal(self, v):
        if v[0] == "b":
            return builtin_literal(v[1], v[2])
        if v[0] == "s":
            return self.simple_literal(v[1], v[2])
        _, comp, vals = v
        e, s = self.struct_for(comp)
        if not (e.get("shape_ok") or e.get("names_ok")) or e.get("type_deviation"):
            raise GLit.Unbuildable(f"shape of {comp.name.xml} deviates from the reference mapping")
        # members are matched by name: a struct whose members are all there but in another order can still be built
        # (and its serialization then shows the order on the wire)
        by_name = {refmap.norm_ident(f["name"]): f for f in s["fields"]}
        fields = []
        for k, (m, x) in enumerate(zip(flat_members(comp), vals)):
            f = s["fields"][k] if e.get("shape_ok") else by_name[m["name"].snake]
            fields.append(f"{f['name']}: {RefEmit._wrapped(m, x, self.literal)}")
        return f"{refmap.rust_path(s)} {{ {', '.join(fields)} }}"


PRELUDE = r'''
use std::io::Write as _IoWrite;
fn js(s: &str) -> String {
    let mut o = String::with_capacity(s.len() + 2);
    o.push('"');
    for c in s.chars() {
        match c {
            '"' => o.push_str("\\\""),
            '\\' => o.push_str("\\\\"),
            '\n' => o.push_str("\\n"),
            '\r' => o.push_str("\\r"),
            '\t' => o.push_str("\\t"),
            c if (c as u32) < 0x20 => o.push_str(&format!("\\u{:04x}", c as u32)),
            c => o.push(c),
        }
    }
    o.push('"');
    o
}
fn emit(line: String) {
    let so = std::io::stdout();
    let mut l = so.lock();
    let _ = writeln!(l, "{}", line);
    let _ = l.flush();
}
fn rs(r: &Result<String, String>) -> String {
    match r {
        Ok(s) => format!("\"ok\":true,\"text\":{}", js(s)),
        Err(e) => format!("\"ok\":false,\"err\":{}", js(e)),
    }
}
fn run_case<T: yaserde::YaSerialize + yaserde::YaDeserialize + std::fmt::Debug>(id: &str, side: &str, v: &T, docs: &[&str]) {
    emit(format!("{{\"ev\":\"begin\",\"id\":{},\"side\":{}}}", js(id), js(side)));
    let dbg = format!("{:?}", v);
    let s = yaserde::ser::to_string(v);
    emit(format!("{{\"ev\":\"ser\",\"id\":{},\"side\":{},{}}}", js(id), js(side), rs(&s)));
    if let Ok(text) = &s {
        match yaserde::de::from_str::<T>(text) {
            Ok(v2) => {
                let d2 = format!("{:?}", v2);
                let s2 = yaserde::ser::to_string(&v2);
                emit(format!("{{\"ev\":\"fix\",\"id\":{},\"side\":{},\"de_ok\":true,\"debug_eq\":{},\"debug\":{},\"debug2\":{},{}}}",
                    js(id), js(side), d2 == dbg, js(&dbg), js(&d2), rs(&s2)));
            }
            Err(e) => emit(format!("{{\"ev\":\"fix\",\"id\":{},\"side\":{},\"de_ok\":false,\"err\":{}}}", js(id), js(side), js(&e))),
        }
    }
    for (j, d) in docs.iter().enumerate() {
        match yaserde::de::from_str::<T>(d) {
            Ok(v2) => {
                let d2 = format!("{:?}", v2);
                let s2 = yaserde::ser::to_string(&v2);
                emit(format!("{{\"ev\":\"de\",\"id\":{},\"side\":{},\"doc\":{},\"de_ok\":true,\"debug_eq\":{},\"debug2\":{},{}}}",
                    js(id), js(side), j, d2 == dbg, js(&d2), rs(&s2)));
            }
            Err(e) => emit(format!("{{\"ev\":\"de\",\"id\":{},\"side\":{},\"doc\":{},\"de_ok\":false,\"err\":{}}}", js(id), js(side), j, js(&e))),
        }
    }
    emit(format!("{{\"ev\":\"end\",\"id\":{},\"side\":{}}}", js(id), js(side)));
}
fn run_docs<T: yaserde::YaSerialize + yaserde::YaDeserialize + std::fmt::Debug>(id: &str, side: &str, docs: &[&str]) {
    emit(format!("{{\"ev\":\"begin\",\"id\":{},\"side\":{}}}", js(id), js(side)));
    for (j, d) in docs.iter().enumerate() {
        match yaserde::de::from_str::<T>(d) {
            Ok(v2) => {
                let s2 = yaserde::ser::to_string(&v2);
                emit(format!("{{\"ev\":\"de\",\"id\":{},\"side\":{},\"doc\":{},\"de_ok\":true,\"debug_eq\":true,\"docs_only\":true,{}}}",
                    js(id), js(side), j, rs(&s2)));
            }
            Err(e) => emit(format!("{{\"ev\":\"de\",\"id\":{},\"side\":{},\"doc\":{},\"de_ok\":false,\"err\":{}}}", js(id), js(side), j, js(&e))),
        }
    }
    emit(format!("{{\"ev\":\"end\",\"id\":{},\"side\":{}}}", js(id), js(side)));
}
fn run_default<T: yaserde::YaSerialize + Default>(id: &str, side: &str) {
    // the value every member of which is "absent" as far as the type can say so
    let s = yaserde::ser::to_string(&T::default());
    emit(format!("{{\"ev\":\"default\",\"id\":{},\"side\":{},{}}}", js(id), js(side), rs(&s)));
}
fn run_check<T: g::restrictions::CheckRestrictions>(id: &str, v: &T) {
    let r = v.check_restrictions(None);
    match r {
        Ok(()) => emit(format!("{{\"ev\":\"check\",\"id\":{},\"ok\":true}}", js(id))),
        Err(e) => emit(format!("{{\"ev\":\"check\",\"id\":{},\"ok\":false,\"err\":{}}}", js(id), js(&e.to_string()))),
    }
}
'''


def build_and_run(p, body_fns, extra_items="", name="drv", timeout=60, max_restarts=6, args=None):
    """Compile a driver (PRELUDE + reference structs + case functions) and run it, restarting with a skip list when a
    case hangs. body_fns: [(case id, rust fn source)]. Returns (events, hung ids, build diagnostics or None)."""
    src = os.path.join(p.dir, f"{name}.rs")
    ref = p.refemit.source() if getattr(p, "refemit", None) else ""
    parts = ["#![allow(warnings)]", '#[path = "emitted.rs"]', "pub mod g;", ref, PRELUDE, extra_items]
    for cid, fn_src in body_fns:
        parts.append(fn_src)
    parts.append("fn main() {")
    parts.append("    let skip: std::collections::HashSet<String> = std::env::args().skip(1).collect();")
    for cid, _ in body_fns:
        parts.append(f"    if !skip.contains({rust_str(cid)}) {{ case_{cid}(); }}")
    parts.append("    emit(\"{\\\"ev\\\":\\\"done\\\"}\".to_string());")
    parts.append("}")
    with open(src, "w", encoding="utf-8") as f:
        f.write("\n".join(parts) + "\n")
    rc, diags, exe = rustbuild.build_bin(src, p.dir, name)
    if rc is None:
        return None, [], [{"message": "rustc watchdog"}]
    if rc != 0:
        return None, [], diags
    events = []
    hung = []
    skip = list(args or [])
    for _ in range(max_restarts + 1):
        try:
            r = subprocess.run([exe] + skip, stdout=subprocess.PIPE, stderr=subprocess.PIPE, timeout=timeout, cwd=p.dir)
            out = r.stdout
            finished = True
        except subprocess.TimeoutExpired as e:
            out = e.stdout or b""
            finished = False
        evs = []
        for line in out.decode("utf-8", errors="replace").splitlines():
            try:
                evs.append(json.loads(line))
            except json.JSONDecodeError:
                pass
        done_ids = {(e["id"], e.get("side")) for e in evs if e.get("ev") == "end"}
        done_cases = {e["id"] for e in evs if e.get("ev") == "case-done"}
        begun = [(e["id"], e.get("side")) for e in evs if e.get("ev") == "begin"]
        events += [e for e in evs if e.get("ev") not in ("done",)]
        if finished and any(e.get("ev") == "done" for e in evs):
            break
        # hang or crash: the case in flight is the last begun one that did not end
        inflight = [b for b in begun if b not in done_ids]
        if not inflight:
            if finished:
                # crashed outside a case
                events.append({"ev": "driver-crash", "rc": r.returncode, "stderr": r.stderr.decode(errors="replace")[-300:]})
            break
        cid = inflight[-1][0]
        hung.append({"id": cid, "side": inflight[-1][1], "how": "hang" if not finished else f"crash rc={r.returncode}",
                     "stderr": "" if not finished else r.stderr.decode(errors="replace")[-300:]})
        # skip every case already completed plus the culprit
        skip = sorted(set(skip) | done_cases | {cid})
    return events, hung, None
